"""C06 — output independent of thread scheduling; the run always ends.

Decides:
  R6.1 worker protocol typestate on every path of every worker function:
       Start -FileInfo-> Open -NewMessage*-> Open -FileSummary-> Closed; no return in Start.
  R6.2 wait condition and books (shared with C01 R1.2/R1.3).
  R6.3 coordinator loop exits are exactly: channel map empty after the disconnect sweep,
       recv_many_chan returned None, EXIT_EARLY; FileSummary and RecvError both schedule the
       channel for removal and the sweep removes scheduled channels before the emptiness test.
  R6.4 blocking inventory: workers never touch the coordinator's channel registry; the
       coordinator waits in select only under a read guard; joins happen after the loop and after
       the registry was cleared.
  R6.5 schedule-independent decoration: stateful colour assignment happens before any worker is
       started, not on message arrival.
Does not decide: OS scheduler fairness, termination of the readers' own loops, promptness.
"""
from collections import deque

import c01
from mir import CheckerError, op_local

PL = "s4::processing_loop"
WORKERS = ["s4::exec_syslogprocessor", "s4::exec_fixedstructprocessor", "s4::exec_evtxprocessor", "s4::exec_journalprocessor"]
REGISTRY = "MAP_PATHID_CHANRECVDATUM"


def send_variant(b, c):
    o = b.origins(c.args[1])
    vs = set()
    for x in o:
        if x[0] == "agg":
            k = b.stmts(x[1])[x[2]][2][1]
            if isinstance(k, dict) and k.get("adt", "").endswith("ChanDatum"):
                vs.add(k["variant"])
                continue
        vs.add("?")
    if len(vs) != 1 or "?" in vs:
        raise CheckerError("%s: cannot classify the datum sent at bb%d" % (b.path, c.bb))
    return next(iter(vs))


def typestate(b, rep, rid):
    sends = {}
    for c in b.live_calls():
        if c.d == "s4::chan_send":
            sends[c.bb] = send_variant(b, c)
        elif c.d.endswith("Sender::<T>::send") or (c.d.endswith("::send") and "crossbeam_channel" in c.d):
            raise CheckerError("%s: direct Sender::send (bb%d) bypasses chan_send; variant not classified" % (b.path, c.bb))
    # forward dataflow: state sets at block entry
    IN = {0: {"Start"}}
    wl = deque([0])
    witness = {(0, "Start"): None}
    viol = []
    while wl:
        bb = wl.popleft()
        outs = set()
        for st in IN[bb]:
            ns = st
            v = sends.get(bb)
            if v is not None:
                if st == "Start":
                    if v == "FileInfo":
                        ns = "Open"
                    else:
                        viol.append(("send-before-fileinfo", bb, v, st))
                elif st == "Open":
                    if v == "NewMessage":
                        ns = "Open"
                    elif v == "FileSummary":
                        ns = "Closed"
                    else:
                        viol.append(("second-fileinfo", bb, v, st))
                elif st == "Closed":
                    viol.append(("send-after-summary", bb, v, st))
            outs.add((st, ns))
        for s in b.succ[bb]:
            for (st, ns) in outs:
                if ns not in IN.setdefault(s, set()):
                    IN[s].add(ns)
                    witness[(s, ns)] = (bb, st)
                    wl.append(s)
    rets = {}
    for bb in b.exits():
        rets[bb] = set(IN.get(bb, set()))
        # a send in the return block itself
        if bb in sends:
            pass
    return sends, IN, witness, viol, rets


def dispatcher_guarantees(prog):
    """G1: worker fn -> set of FileType variant idx it is dispatched for (exec_fileprocessor_thread);
    G2: LogMessageSpecificData variant as a function of the FileType variant (processing_loop)."""
    disp = prog.body("s4::exec_fileprocessor_thread")
    g1 = {}
    for bb in sorted(disp.live):
        t = disp.term(bb)
        if t[0] != "switch":
            continue
        l = op_local(t[1])
        for s in disp.stmts(bb):
            if s[0] == "=" and s[1] == [l] and s[2][0] == "discr":
                pl = s[2][1]
                if pl[0] == 2 and len(pl) == 2 and isinstance(pl[1], list) and pl[1][0] == "." and pl[1][1] == 2:
                    arms = {}
                    for v, tgt in t[2]:
                        arms.setdefault(tgt, []).append(int(v))
                    for tgt, vs in arms.items():
                        others = set()
                        for t2 in arms:
                            if t2 != tgt:
                                others |= disp.reachable(t2)
                        others |= disp.reachable(t[3])
                        region = disp.reachable(tgt) - others
                        for c in disp.live_calls():
                            if c.bb in region and c.d.startswith("s4::exec_"):
                                g1.setdefault(c.d, set()).update(vs)
    if len(g1) < 4:
        raise CheckerError("exec_fileprocessor_thread: dispatch on thread_init_data.2 not recognised")
    # every call of a worker must be inside its arm
    for c in disp.live_calls():
        if c.d.startswith("s4::exec_") and c.d not in g1:
            raise CheckerError("exec_fileprocessor_thread: %s called outside the file-type dispatch" % c.d)
    pl = prog.body(PL)
    ft = {v["name"]: v["idx"] for v in prog.facts.adts["s4lib::common::FileType"]["variants"]}
    lm = {v["name"]: v["idx"] for v in prog.facts.adts["s4::LogMessageSpecificData"]["variants"]}
    g2 = None
    # the spawn closure captures (sender, thread_data); thread_data tuple field 3
    for l, ds in pl.defs.items():
        if pl.local_ty(l) != "s4::LogMessageSpecificData" or len(ds) != 2:
            continue
        variants = {}
        for d in ds:
            if d[1] == "call" or d[2][0] != "agg" or not isinstance(d[2][1], dict):
                variants = None
                break
            variants[d[2][1]["variant"]] = d[0]
        if not variants or set(variants) != {"Journal", "None"}:
            continue
        # the Journal aggregate must be dominated by the Journal arm of a switch on a FileType discriminant
        jb, nb = variants["Journal"], variants["None"]
        for bb in sorted(pl.live):
            t = pl.term(bb)
            if t[0] != "switch":
                continue
            ll = op_local(t[1])
            for s in pl.stmts(bb):
                if s[0] == "=" and s[1] == [ll] and s[2][0] == "discr":
                    arms = {int(v): tgt for v, tgt in t[2]}
                    jt = arms.get(ft["Journal"])
                    if jt is not None and pl.dominates(jt, jb) and pl.pred[jt] == [bb] and pl.dominates(t[3], nb) and not pl.dominates(jt, nb):
                        g2 = {"Journal": lm["Journal"], "other": lm["None"], "local": l}
    if g2 is None:
        raise CheckerError("processing_loop: relation between FileType and LogMessageSpecificData of the thread data not recognised")
    # ... and that local is what goes into the thread data tuple field 3
    ok = False
    for bb in sorted(pl.live):
        for s in pl.stmts(bb):
            if s[0] == "=" and s[2][0] == "agg" and s[2][1] == "tuple" and len(s[2][2]) == 8:
                o = s[2][2][3]
                if o[0] in ("cp", "mv") and any(x == ("local", g2["local"], ()) or (x[0] == "agg") for x in pl.origins(o)):
                    ok = True
    if not ok:
        raise CheckerError("processing_loop: thread data tuple does not carry the LogMessageSpecificData local")
    return g1, g2, ft, lm


def start_return_feasible(b, w, sends, g1, g2, ft, lm):
    """Is there a return reachable in state Start on a path consistent with what the dispatcher
    guarantees about thread_init_data (arg 2)?  Returns list of feasible witness paths."""
    import decide
    cut = set(bb for bb, v in sends.items())

    def end_of(bb):
        if bb in cut:
            return "cut"
        if b.term(bb)[0] == "ret":
            return "ret"
        return None
    feasible = []
    my_ft = g1.get(w, set())
    for p in decide.enumerate_paths(b, 0, end_of, opaque_ok=lambda bb: True, max_paths=20000):
        if p.end != "ret":
            continue
        contradiction = False
        for d in p.decisions:
            if d[0] not in ("variant", "variant_not"):
                continue
            root = d[1]
            # thread_init_data.<k>
            if root[0] == "arg" and root[1] == 2 and len(root) == 3:
                k = root[2]
                if k == "2":
                    allowed = my_ft
                elif k == "3":
                    allowed = {g2["Journal"]} if my_ft == {ft["Journal"]} else ({g2["other"]} if ft["Journal"] not in my_ft else {g2["Journal"], g2["other"]})
                else:
                    continue
                if d[0] == "variant" and d[2] not in allowed:
                    contradiction = True
                if d[0] == "variant_not" and all(a in d[2] for a in allowed):
                    contradiction = True
        if not contradiction:
            feasible.append(p)
    return feasible


def witness_path(witness, bb, st):
    path = []
    cur = (bb, st)
    n = 0
    while cur is not None and n < 400:
        path.append(cur[0])
        cur = witness.get(cur)
        n += 1
    return list(reversed(path))


def run(prog, rep, tier):
    R61 = rep.rule("R6.1", "worker protocol typestate FileInfo -> NewMessage* -> FileSummary on all paths")
    R62 = rep.rule("R6.2", "wait condition dominates printing (see C01 R1.2)")
    R63 = rep.rule("R6.3", "coordinator loop exits and disconnect sweep")
    R64 = rep.rule("R6.4", "blocking inventory: registry access, select under read guard, join placement")
    R65 = rep.rule("R6.5", "stateful colour assignment happens before workers start")

    # ------------------------------------------------------------ R6.1
    disp = prog.body("s4::exec_fileprocessor_thread")
    dispatched = sorted(set(c.d for c in disp.live_calls() if c.d.startswith("s4::exec_") and c.d != disp.path))
    rep.examined(R61, disp.path + "|dispatch", sample={"dispatched_workers": dispatched})
    if len(dispatched) < 4:
        raise CheckerError("exec_fileprocessor_thread dispatches to %d worker functions" % len(dispatched))
    g1, g2, ftidx, lmidx = dispatcher_guarantees(prog)
    rep.examined(R61, disp.path + "|guarantees", sample={"worker_filetype_variants": {k: sorted(v) for k, v in g1.items()},
                                                          "logmessagespecificdata": "Journal iff FileType::Journal (proved in processing_loop)"})
    for w in dispatched:
        b = prog.body(w)
        sends, IN, witness, viol, rets = typestate(b, rep, R61)
        counts = {}
        for v in sends.values():
            counts[v] = counts.get(v, 0) + 1
        rep.examined(R61, w + "|protocol", sample={"worker": w, "sends": counts, "returns": {str(k): sorted(v) for k, v in rets.items()}})
        for (kind, bb, v, st) in viol:
            key = "%s|%s|%s" % (w, kind, v)
            rep.violation(R61, key, "%s: sends ChanDatum::%s (line %s) while the protocol state is %s (%s); witness path (blocks) %s" % (
                w, v, b.blocks[bb].get("l"), st, kind, witness_path(witness, bb, st)[-12:]))
        for bb, sts in rets.items():
            if "Start" in sts:
                feas = [p for p in start_return_feasible(b, w, sends, g1, g2, ftidx, lmidx) if p.blocks[-1] == bb]
                rep.examined(R61, "%s|early-return@%s" % (w, "defensive" if not feas else "feasible"),
                             sample={"worker": w, "return_line": b.blocks[bb].get("l"), "feasible_under_dispatch_guarantees": bool(feas)})
                if not feas:
                    continue
                key = "%s|return-before-fileinfo" % w
                rep.violation(R61, key, "%s: can return (line %s) without having sent ChanDatum::FileInfo; the coordinator then never clears its FileInfo "
                              "expectation, stops printing and ends with undrained sources. witness path (blocks) %s" % (
                                  w, b.blocks[bb].get("l"), witness_path(witness, bb, "Start")[-14:]))
            if "Open" in sts:
                rep.info("%s can return in state Open (no FileSummary); tolerated by the coordinator through RecvError" % w)
        if counts.get("FileInfo", 0) < 1 or counts.get("FileSummary", 0) < 1 or counts.get("NewMessage", 0) < 1:
            rep.violation(R61, w + "|incomplete", "%s: does not contain all three protocol sends (%s)" % (w, counts))
    rep.exhaustive.append("R6.1: typestate fixpoint over every CFG path of the four worker functions")

    # ------------------------------------------------------------ R6.7 worker loops drain their reader
    R67 = rep.rule("R6.7", "every worker's message loop ends only on its reader's own Done/Err (text: or on the last message of the file)")
    READER_CALLS = {
        "s4::exec_syslogprocessor": ("find_sysline_between_datetime_filters",),
        "s4::exec_fixedstructprocessor": ("process_entry_at",),
        "s4::exec_evtxprocessor": ("next",),
        "s4::exec_journalprocessor": ("next",),
    }
    import decide as _d
    for w in dispatched:
        wb_ = prog.body(w)
        names_ = READER_CALLS.get(w)
        if not names_:
            continue
        rc_ = [c for c in wb_.live_calls() if c.d.split("::")[-1] in names_ and c.d.startswith("s4lib::readers::") and any(c.bb in wb_.loop_blocks(h_) for t_, h_ in wb_.back_edges())]
        if not rc_:
            raise CheckerError("%s: reader call in a loop not found" % w)
        rcall = rc_[-1]
        hh = min([h_ for t_, h_ in wb_.back_edges() if rcall.bb in wb_.loop_blocks(h_)], key=lambda x: len(wb_.loop_blocks(x)))
        WL_ = wb_.loop_blocks(hh)
        bad_ = []
        nex_ = 0
        for x in sorted(WL_):
            for s_ in wb_.succ[x]:
                if s_ in WL_ or wb_.term(s_)[0] == "unreachable":
                    continue
                nex_ += 1
                okx = False
                if wb_.term(x)[0] == "switch":
                    sd = _d.switch_decisions(wb_, x)
                    if sd:
                        for tgt, d in sd:
                            if tgt != s_:
                                continue
                            if d[0] in ("variant", "variant_not") and d[1][0] == "call" and d[1][1] == rcall.d.split("::")[-1]:
                                okx = True
                            # text logs are served in file order: the reader's own "this is the last message" may end the loop
                            if w.endswith("exec_syslogprocessor") and d[0] == "flag" and d[1][0] == "call" and d[1][1] == "is_sysline_last" and d[2] is True:
                                okx = True
                if not okx and w.endswith("exec_syslogprocessor") and wb_.term(x)[0] == "switch":
                    # `if is_last { assert!(..); break }` : the assert's own branch sits between
                    srcs = set()
                    for xx in wb_.origins(wb_.term(x)[1], through_calls=("::not",)):
                        srcs.add(xx[0])
                    dom_flag = False
                    for bb2 in sorted(WL_):
                        if wb_.term(bb2)[0] == "switch":
                            sd2 = _d.switch_decisions(wb_, bb2)
                            if sd2:
                                for tgt2, d2 in sd2:
                                    if d2[0] == "flag" and d2[1][0] == "call" and d2[1][1] == "is_sysline_last" and d2[2] is True and wb_.dominates(tgt2, x) and tgt2 != bb2:
                                        dom_flag = True
                    okx = dom_flag
                if not okx:
                    bad_.append((x, wb_.blocks[x].get("l")))
        rep.examined(R67, w + "|loop-exits", sample={"worker": w, "reader_call": rcall.d.split("::")[-2:], "loop_exits": nex_, "foreign_exits": bad_})
        if bad_:
            rep.violation(R67, w + "|loop-exits", "%s: the message loop can end (line %s) on a condition other than its reader reporting Done/Err; messages the reader would still deliver are never sent" % (w, bad_[0][1]))

    # ------------------------------------------------------------ R6.2 (re-run the C01 rules on the same facts)
    b = prog.body(PL)

    class Sub:
        def __init__(self, rep, rid):
            self.rep, self.rid = rep, rid
    # light-weight: reuse c01 by running it into a scratch report and lifting R1.2/R1.3 verdicts
    from common import Report
    sub = Report("C01", "quick", dict(rep.meta))
    try:
        c01_run_ok = True
        import io, contextlib
        with contextlib.redirect_stdout(io.StringIO()):
            _run_c01_rules(prog, sub)
    except CheckerError as e:
        # the lifted C01 rules lost an anchor: go on with this property's own rules and fail closed at
        # the end unless one of them reports a violation (a decided violation beats "cannot decide")
        c01_run_ok = False
        c01_deferred = e
    for (rid, key, what, detail) in sub.violations:
        if rid in ("R1.2", "R1.3"):
            rep.violation(R62, key.split("|", 1)[1], what)
    for rid in ("R1.2", "R1.3"):
        for s in sub.rules.get(rid, {}).get("samples", []):
            rep.examined(R62, "%s|%s" % (rid, str(s)[:60]), sample=s)
    # R6.9: the output is a function of inputs and options only if ties between sources are broken by
    # something the inputs determine: the pending map is ordered by source index and the selection takes
    # the first minimum (C01 R1.1), and source indexes follow argument order with sorted directory walks
    # (C01 R1.4).  A hash map or an unsorted walk makes the order of tied messages (and the colours)
    # vary from run to run or with the directory's creation history.
    R69 = rep.rule("R6.9", "ties between sources are broken deterministically (from C01 R1.1, R1.4)")
    for (rid, key, what, detail) in sub.violations:
        if rid in ("R1.1", "R1.4"):
            rep.violation(R69, key.split("|", 1)[1], what)
    for rid in ("R1.1", "R1.4"):
        for k_ in sorted(sub.rules.get(rid, {}).get("keys", ())):
            rep.examined(R69, "%s|%s" % (rid, k_), sample={"rule": rid, "instance": k_})
    rep.floor("R6.9", 2)

    # ------------------------------------------------------------ R6.3
    rc = [c for c in b.live_calls() if c.d.endswith("recv_many_chan")]
    if len(rc) != 1:
        raise CheckerError("processing_loop: %d recv_many_chan calls" % len(rc))
    rc = rc[0]
    heads = set(h for t, h in b.back_edges() if rc.bb in b.loop_blocks(h))
    if len(heads) != 1:
        raise CheckerError("processing_loop: main loop not identified")
    head = next(iter(heads))
    L = b.loop_blocks(head)

    def diverges(bb):
        r = b.reachable(bb)
        return not any(b.term(x)[0] == "ret" for x in r) and not any(x in L for x in r)

    def discr_sources(bb):
        t = b.term(bb)
        res = set()
        if t[0] != "switch":
            return res
        ops = [t[1]]
        l = op_local(t[1])
        for s in b.stmts(bb):
            if s[0] == "=" and l is not None and s[1] == [l] and s[2][0] == "discr":
                ops = [["cp", s[2][1]]]
        for o in ops:
            for x in b.origins(o, through_calls=("::deref", "::unwrap", "Deref>::deref")):
                if x[0] == "call":
                    cc = [z for z in b.calls if z.bb == x[1]][0]
                    res.add(cc.f)
                else:
                    res.add(str(x[0]))
        return res

    exits = []
    for x in sorted(L):
        for s in b.succ[x]:
            if s not in L:
                if b.term(s)[0] == "unreachable" or diverges(s):
                    continue
                exits.append((x, s))
    allowed = 0
    for (x, s) in exits:
        src = discr_sources(x)
        cls = None
        if any("recv_many_chan" in f for f in src):
            cls = "recv-none"
        elif any("RwLock::<bool>::read" in f or "RwLock<bool>" in f for f in src):
            cls = "exit-early"
        elif any(f.endswith("::is_empty") and "Receiver<s4::ChanDatum>" in f for f in src) or any("is_empty" in f and "Receiver" in f for f in src):
            cls = "registry-empty"
        inst = "%s|exit@%s" % (PL, cls or "other")
        rep.examined(R63, inst, sample={"exit_edge": [x, s], "line": b.blocks[x].get("l"), "controlled_by": sorted(src)[:3], "class": cls})
        if cls is None:
            rep.violation(R63, "%s|exit|%s" % (PL, ";".join(sorted(f.split("::")[-1] for f in src))[:80]),
                          "processing_loop: the main loop can be left (line %s) on a condition other than 'registry empty', 'recv_many_chan returned None' or EXIT_EARLY: controlled by %s" % (
                              b.blocks[x].get("l"), sorted(src)[:3]))
        else:
            allowed += 1
    if allowed < 3:
        raise CheckerError("processing_loop: only %d recognised loop exits" % allowed)
    # disconnect scheduling: FileSummary arm and RecvError arm push the source
    disc = [i for i, l in enumerate(b.locals) if l.get("name") == "disconnect" or (l["ty"] == "std::vec::Vec<usize>" and l.get("name", "").startswith("disconnect"))]
    vecs = [i for i, l in enumerate(b.locals) if l["ty"] == "std::vec::Vec<usize>" and l.get("name")]
    pushes = [c for c in b.live_calls() if c.d.endswith("::push") and "Vec" in c.d and c.bb in L and "usize" in (c.callee.get("self") or c.f)]
    # classify each push by the dominating arm
    cd_names = {v["idx"]: v["name"] for v in prog.facts.adts["s4::ChanDatum"]["variants"]}
    arms_seen = set()
    for p in pushes:
        for bb in sorted(L):
            t = b.term(bb)
            if t[0] != "switch":
                continue
            l = op_local(t[1])
            for s in b.stmts(bb):
                if s[0] == "=" and s[1] == [l] and s[2][0] == "discr":
                    ty = b.local_ty(s[2][1][0]) if len(s[2][1]) == 1 else ""
                    for v, tgt in t[2]:
                        if tgt != bb and b.dominates(tgt, p.bb) and b.pred[tgt] == [bb]:
                            if ty.endswith("s4::ChanDatum"):
                                arms_seen.add("ChanDatum::" + cd_names[int(v)])
                            elif ty.startswith("std::result::Result<s4::ChanDatum"):
                                arms_seen.add("Result::" + ("Ok" if int(v) == 0 else "Err"))
    rep.examined(R63, PL + "|disconnect-scheduling", sample={"push_sites": len(pushes), "arms": sorted(arms_seen)})
    for need in ("ChanDatum::FileSummary", "Result::Err"):
        if need not in arms_seen:
            rep.violation(R63, PL + "|disconnect-scheduling|" + need, "processing_loop: receiving %s does not schedule the channel for removal; the loop would wait on it forever" % need)
    # sweep: registry remove in the loop, dominating the emptiness exit
    removes = [c for c in b.live_calls() if c.bb in L and c.d.endswith("::remove") and "Receiver<s4::ChanDatum>" in (c.callee.get("self") or c.f)]
    empt = [x for (x, s) in exits if any("is_empty" in f and "Receiver" in f for f in discr_sources(x))]
    rep.examined(R63, PL + "|sweep", sample={"registry_remove_sites": len(removes), "emptiness_exit_blocks": empt})
    if not removes:
        rep.violation(R63, PL + "|sweep", "processing_loop: scheduled channels are never removed from the registry")
    elif empt:
        # the loop over `disconnect` (containing the remove) must precede the emptiness test on every path from the loop head
        inner = set()
        for r in removes:
            for (tl, h) in b.back_edges():
                lb = b.loop_blocks(h)
                if r.bb in lb and h != head and len(lb) < len(L):
                    inner.add(h)
        if not inner:
            rep.violation(R63, PL + "|sweep", "processing_loop: the registry removal is not in a sweep over the scheduled channels")
        else:
            for e in empt:
                if not any(b.dominates(h, e) for h in inner):
                    rep.violation(R63, PL + "|sweep", "processing_loop: the emptiness test that ends the loop is not preceded by the sweep of scheduled channels")

    # ------------------------------------------------------------ R6.4
    # (a) workers never touch the registry
    worker_roots = ["s4::exec_fileprocessor_thread"]
    reach = prog.reachable_fns(worker_roots)
    offenders = []
    for p in sorted(reach):
        bd = prog.body(p, required=False)
        if bd is None:
            continue
        for c in bd.live_calls():
            if REGISTRY in c.f or REGISTRY in c.d:
                offenders.append((p, c.f))
    rep.examined(R64, "workers|registry", sample={"worker_reachable_functions": len(reach), "registry_accesses": offenders[:3]})
    if offenders:
        rep.violation(R64, "workers|registry|" + offenders[0][0], "worker-reachable function %s accesses the coordinator's channel registry (%s)" % offenders[0])
    # (b) the guard held across select is a read guard
    o = b.origins(rc.args[0], through_calls=("::deref", "::unwrap", "Deref>::deref"))
    kinds = set()
    for x in o:
        if x[0] == "call":
            kinds.add(x[2].split("::")[-1])
    rep.examined(R64, PL + "|select-guard", sample={"guard_acquired_by": sorted(kinds)})
    if kinds != {"read"}:
        rep.violation(R64, PL + "|select-guard", "processing_loop: the registry guard held while blocked in select is acquired by %s, not read(); the signal handler and the sweep could deadlock or starve" % sorted(kinds))
    # (c) joins only after the loop, after the registry was cleared
    joins = [c for c in b.live_calls() if c.d.endswith("JoinHandle::<T>::join")]
    clears = [c for c in b.live_calls() if c.d.endswith("::clear") and "Receiver<s4::ChanDatum>" in (c.callee.get("self") or c.f)]
    rep.examined(R64, PL + "|join", sample={"join_sites": len(joins), "registry_clear_sites": len(clears)})
    for j in joins:
        if j.bb in L:
            rep.violation(R64, PL + "|join|in-loop", "processing_loop: JoinHandle::join inside the coordinator loop can block while workers are blocked on a full channel")
        elif not any(b.dominates(cl.bb, j.bb) and cl.bb not in L for cl in clears):
            rep.violation(R64, PL + "|join|before-clear", "processing_loop: JoinHandle::join is not preceded by dropping all receivers; a worker blocked in send would never finish")

    # (c2) until every source is drained the coordinator waits for workers only by receiving: a wait on
    # worker *termination* (is_finished polling, sleep/park/yield loops) while channels are bounded and
    # nobody receives can never end once enough workers are blocked in send.
    WAITS = ("is_finished", "sleep", "park", "park_timeout", "yield_now", "sleep_until", "wait", "wait_timeout", "wait_while")
    waits = []
    for wb in [b] + list(prog.closures_in(b.path)):
        for c in wb.live_calls():
            nm_ = (c.o or c.d).split("::")[-1]
            if nm_ in WAITS and ("std::thread" in c.d or "JoinHandle" in c.d or "Condvar" in c.d or "Barrier" in c.d):
                after_drain = wb is b and c.bb not in L and any(b.dominates(cl.bb, c.bb) and cl.bb not in L for cl in clears)
                waits.append((wb.path.split("::")[-1], nm_, c.line, after_drain))
    rep.examined(R64, PL + "|waits-on-worker-progress", sample={"thread_wait_calls": waits, "join_sites_after_drain": len(joins)})
    if not joins:
        raise CheckerError("processing_loop: no JoinHandle::join (positive control of the thread-wait inventory)")
    for w_ in waits:
        if not w_[3]:
            rep.violation(R64, PL + "|waits-on-worker-progress|" + w_[1], "processing_loop (%s, line %d): the coordinator waits on %s() before every source is drained; workers blocked on a full channel "
                          "never finish while the coordinator is not receiving, so with enough such sources the run deadlocks" % (w_[0], w_[2], w_[1]))

    # (d) the coordinator waits without a time limit: a source may be silent for as long as its file takes to read
    TIMED = ("select_timeout", "select_deadline", "try_select", "ready_timeout", "ready_deadline", "try_ready", "recv_timeout", "recv_deadline", "try_recv")
    rmb = prog.body(PL + "::recv_many_chan")
    timed = []
    for bd in (b, rmb):
        for c in bd.live_calls():
            if c.d.startswith("crossbeam_channel::") and c.d.split("::")[-1] in TIMED:
                timed.append((bd.path.split("::")[-1], c.d.split("::")[-1], c.line))
    blocking = [c for c in rmb.live_calls() if c.d.startswith("crossbeam_channel::Select") and c.d.split("::")[-1] == "select"]
    # a timed wait is acceptable when its time-out only leads back to waiting; it is a defect when the
    # time-out arm can leave the coordinator (return None / break): a silent source would end the run
    import c03 as _c03t
    giving_up = []
    for bd in (b, rmb):
        for c in bd.live_calls():
            if c.d.startswith("crossbeam_channel::") and c.d.split("::")[-1] in TIMED and c.target is not None:
                try:
                    sw_, arms_, oth_ = _c03t.result_arms(bd, c)
                except CheckerError:
                    giving_up.append((c.d.split("::")[-1], c.line, "result not matched"))
                    continue
                err_t = arms_.get(1)
                if err_t is None:
                    continue
                # from the time-out arm: can the function return / the loop be left without passing a wait again?
                waits = set(x.bb for x in bd.live_calls() if x.d.startswith("crossbeam_channel::") and x.d.split("::")[-1] in TIMED + ("select", "recv", "ready"))
                if any(bd.term(x)[0] == "ret" for x in bd.reachable(err_t, waits)):
                    giving_up.append((c.d.split("::")[-1], c.line, "time-out can return without waiting again"))
    rep.examined(R64, PL + "|untimed-wait", sample={"blocking_select_calls": len(blocking), "timed_or_polling_calls": timed, "time_outs_that_give_up": giving_up})
    if giving_up or (len(blocking) != 1 and not timed):
        rep.violation(R64, PL + "|untimed-wait", "the coordinator's wait for the workers can give up on a time-out (%s); a source that is silent for longer than the limit (a large compressed file, a window far into the file) ends the run early with output missing" % (
            giving_up or "no blocking select"))
    # ... and recv_many_chan reports "nothing to wait for" (None) only when no channel was registered or a lookup failed
    import decide as _dec
    none_bad = []
    for p_ in _dec.enumerate_paths(rmb, 0, lambda bb: "ret" if rmb.term(bb)[0] == "ret" else None, opaque_ok=lambda bb: True, max_paths=20000):
        if p_.end != "ret" or _dec.returned_variant(rmb, p_) != "None":
            continue
        okp = False
        for d in p_.decisions:
            if d[0] == "flag" and d[1][0] == "call" and d[1][1] == "is_empty" and d[2] is True:
                okp = True
            if d[0] in ("variant",) and d[1][0] == "call" and d[1][1] in ("get",) and d[2] == 0:
                okp = True
            # `let Some(x) = map.get(..) else { return None }` lowers to "discriminant is not Some"
            if d[0] == "variant_not" and d[1][0] == "call" and d[1][1] in ("get",) and 1 in tuple(d[2]):
                okp = True
        if not okp:
            none_bad.append(p_.blocks[-5:])
    rep.examined(R64, PL + "::recv_many_chan|none", sample={"None_returns_not_explained_by_empty_registration_or_failed_lookup": len(none_bad)})
    if none_bad:
        rep.violation(R64, PL + "::recv_many_chan|none", "recv_many_chan can report 'no channel to wait for' although channels were registered (blocks %s); the caller then leaves the main loop with sources undrained" % (none_bad[0],))

    # (e) lazily initialised tables shared by the workers are initialised atomically (get_or_init); a check-then-set
    #     whose "already set" outcome is treated as a failure makes the result depend on which worker wins the race
    cells = []
    for p_ in sorted(reach):
        bd = prog.body(p_, required=False)
        if bd is None:
            continue
        for c in bd.live_calls():
            st_ = c.callee.get("self") or ""
            if ("OnceCell<" in st_ or "OnceLock<" in st_ or "once_cell::" in c.d or "OnceLock" in c.d):
                cells.append((p_, c))
    inits = [(p_, c) for p_, c in cells if c.d.split("::")[-1] in ("get_or_init", "get_or_try_init")]
    sets = [(p_, c) for p_, c in cells if c.d.split("::")[-1] in ("set", "try_insert")]
    rep.examined(R64, "workers|once-cells", sample={"atomic_inits": [p_.split("::")[-1] for p_, _ in inits], "check_then_set_sites": [p_.split("::")[-1] for p_, _ in sets]})
    for p_, c in sets:
        bd = prog.body(p_)
        inspected = False
        for bb in sorted(bd.live):
            t = bd.term(bb)
            if t[0] == "switch":
                l = op_local(t[1])
                for st in bd.stmts(bb):
                    if st[0] == "=" and st[1] == [l] and st[2][0] == "discr" and st[2][1][0] == c.dest[0]:
                        inspected = True
        if inspected:
            rep.violation(R64, "workers|once-cell-set|" + p_, "%s initialises a shared cell with %s and branches on its result (line %d): the worker that loses the initialisation race takes the failure path, so what is parsed depends on thread scheduling" % (
                p_, c.d.split("::")[-1], c.line))

    # ------------------------------------------------------------ R6.5
    spawns = [c for c in b.live_calls() if c.d.endswith("Builder::spawn") or c.d.endswith("thread::spawn")]
    colors = [c for c in b.live_calls() if c.d.endswith("::color_rand")]
    rep.examined(R65, PL + "|colour", sample={"color_rand_sites": len(colors), "spawn_sites": len(spawns)})
    if not spawns:
        raise CheckerError("processing_loop: no thread spawn")
    # color_rand handed over as a function value, or called inside a closure created after the spawn
    class _Site:
        def __init__(self, bb, line):
            self.bb, self.line = bb, line
    for (bb, path) in b.fn_value_refs():
        if path.endswith("::color_rand"):
            colors.append(_Site(bb, b.blocks[bb].get("l") or 0))
        else:
            cb = prog.body(path, required=False)
            if cb is not None and cb.j.get("kind") == "closure" and any(x.d.endswith("::color_rand") for x in cb.live_calls()):
                colors.append(_Site(bb, b.blocks[bb].get("l") or 0))
    if not colors:
        raise CheckerError("processing_loop: no colour assignment found")
    for c in colors:
        after_spawn = any(c.bb in b.reachable_after(s.bb) for s in spawns)
        if after_spawn or c.bb in L:
            rep.violation(R65, PL + "|colour", "processing_loop: color_rand() (a stateful sequence) is called after workers were started (line %d); the colour a file gets would depend on message arrival order" % c.line)

    # ------------------------------------------------------------ R6.8
    # The print gate waits until every source registered in the FileInfo map has reported.  A source
    # is registered (`insert(pathid, false)`) in the set-up loop, workers are spawned by a later loop
    # over another per-source map.  Necessary condition: the two maps receive their entry together
    # (neither insert can be reached without the other inside one iteration); otherwise a source that
    # is dismissed early stays "expected" forever and nothing is ever printed.
    R68 = rep.rule("R6.8", "a source is registered as awaiting FileInfo exactly when it is entered in the map the spawn loop iterates")
    b = prog.body(PL)
    spawns = [c for c in b.live_calls() if c.d.endswith("Builder::spawn") or c.d.endswith("thread::spawn")]
    if len(spawns) != 1:
        raise CheckerError("processing_loop: %d spawn sites" % len(spawns))
    sp = spawns[0]
    hdrs2 = [h for (tl, h) in b.back_edges() if sp.bb in b.loop_blocks(h)]
    iterated = set()
    for h in hdrs2:
        L2 = b.loop_blocks(h)
        for c in b.live_calls():
            if c.bb in L2 and (c.o.endswith("Iterator::next") or c.d.endswith("::next")) and b.dominates(c.bb, sp.bb):
                for o in b.origins(c.args[0], through_calls=("::into_iter", "::deref", "::iter", "::keys", "::values", "::iter_mut")):
                    if o[0] == "local" and b.local_name(o[1]):
                        iterated.add(o[1])
                    elif o[0] == "call" and o[2].split("::")[-1] in ("with_capacity", "new"):
                        t_ = b.term(o[1])
                        if len(t_[3]) == 1 and b.local_name(t_[3][0]):
                            iterated.add(t_[3][0])
    regs = []
    for c in b.live_calls():
        if c.d.split("::")[-1] == "insert" and ("HashMap" in c.d or "BTreeMap" in c.d):
            if len(c.args) == 3 and c.args[2][0] == "k" and c.args[2][2] is False and "bool" in (c.callee.get("self") or c.f):
                regs.append(c)
    if not iterated or not regs:
        raise CheckerError("processing_loop: spawn-loop map (%s) or FileInfo registration (%d) not recognised" % (sorted(iterated), len(regs)))

    def _target_local(c):
        import flow
        return flow.named_target(b, c.args[0])
    entries = [c for c in b.live_calls() if c.d.split("::")[-1] == "insert" and ("HashMap" in c.d or "BTreeMap" in c.d) and _target_local(c) in iterated]
    if not entries:
        raise CheckerError("processing_loop: no insert into the map the spawn loop iterates")
    for r in regs:
        hs = [h for (tl, h) in b.back_edges() if r.bb in b.loop_blocks(h)]
        ok = False
        why = "no entry insert in the same loop"
        for e in entries:
            if not any(e.bb in b.loop_blocks(h) for h in hs):
                continue
            first, second = (r, e) if b.dominates(r.bb, e.bb) else ((e, r) if b.dominates(e.bb, r.bb) else (None, None))
            if first is None:
                why = "neither insert dominates the other"
                continue
            # every way on from `first` (next iteration or leaving the loop) passes `second`
            leaks = [x for x in b.reachable(first.target, {second.bb}) if x in hs or (x not in b.loop_blocks(hs[0]) and b.term(x)[0] != "unreachable")] if hs else []
            leaks = [x for x in leaks if not (b.term(x)[0] == "call" and b.term(x)[4] is None)]  # process::exit & co
            if leaks:
                why = "after the %s insert (line %d) the iteration can continue or end (line %s) without the %s insert" % (
                    "registration" if first is r else "entry", first.line, b.blocks[sorted(leaks)[0]].get("l"), "entry" if first is r else "registration")
                continue
            ok = True
        rep.examined(R68, "%s|registration" % PL, sample={"registration_line": r.line, "spawn_loop_iterates": sorted(b.local_name(x) for x in iterated), "entry_inserts": [e.line for e in entries], "paired": ok})
        if not ok:
            rep.violation(R68, "%s|registration" % PL, "processing_loop: a source is registered as awaiting FileInfo (line %d) but is not entered in %s, which the spawn loop iterates: %s; "
                          "a dismissed source (empty or tiny file) then blocks printing of every other source" % (r.line, sorted(b.local_name(x) for x in iterated), why))

    # ------------------------------------------------------------ R6.8b spawn failure un-registers the source
    import c03 as _c03b
    import flow as _flow
    swbb_, arms_s, oth_s = _c03b.result_arms(b, sp)
    err_t = arms_s.get(1)
    wl = set(_flow.named_target(b, r.args[0]) for r in regs)
    undo = [c for c in b.live_calls() if c.d.split("::")[-1] in ("remove", "insert", "remove_entry") and ("HashMap" in c.d or "BTreeMap" in c.d) and c.args and _flow.named_target(b, c.args[0]) in wl
            and (c.d.split("::")[-1] != "insert" or (len(c.args) == 3 and c.args[2][0] == "k" and c.args[2][2] is True))]
    if err_t is None:
        raise CheckerError("processing_loop: Err arm of the spawn result not found")
    leak = [x for x in b.reachable(err_t, set(c.bb for c in undo)) if x in hdrs2 or (hdrs2 and x not in b.loop_blocks(hdrs2[0]) and b.term(x)[0] != "unreachable")]
    rep.examined(R68, "%s|spawn-failure" % PL, sample={"err_arm": err_t, "unregister_calls": [c.line for c in undo if c.bb in b.reachable(err_t)], "loop_continues_still_registered": bool(leak)})
    if leak:
        rep.violation(R68, "%s|spawn-failure" % PL, "processing_loop: when a worker thread cannot be spawned its channel is removed but the source stays registered as awaiting FileInfo; "
                      "the print gate never opens and nothing is printed for the other sources (4 files under `ulimit -u` leaving room for 3 threads: 0 lines, exit 0)")

    # ------------------------------------------------------------ R6.10 a worker's datum is handed over, however long that takes
    # The channel is bounded; a worker that is ahead of the printing thread must wait.  `send` waits
    # and fails only when the receiver is gone (the run is over for that source).  try_send /
    # send_timeout / send_deadline fail *with the datum in hand* when the coordinator is merely slow
    # (a pager, a slow pipe, another source that takes long to open): the message is lost and stdout
    # depends on timing.
    R610 = rep.rule("R6.10", "every send on the worker->coordinator channel is the blocking, lossless Sender::send")
    LOSSY = ("try_send", "send_timeout", "send_deadline")
    n610 = 0
    for sb_ in prog.bodies():
        if not (sb_.path.startswith("s4::") or sb_.path.startswith("s4lib::")) or "_tests" in sb_.path:
            continue
        for c in sb_.live_calls():
            if "Sender" not in c.d or "ChanDatum" not in (c.callee.get("self") or ""):
                continue
            nm_ = c.d.split("::")[-1]
            if nm_ in ("send",) + LOSSY:
                n610 += 1
                rep.examined(R610, "%s|%s" % (sb_.path, nm_), sample={"site": sb_.path, "line": c.line, "call": nm_})
                if nm_ in LOSSY:
                    rep.violation(R610, "%s|%s" % (sb_.path, nm_), "%s (line %d) sends with %s(): when the bounded channel stays full past the limit the call fails with the datum in hand, "
                                  "so a message (or the file's summary) is dropped whenever the printing thread is slower than the worker; the output depends on timing" % (sb_.path, c.line, nm_))
    if n610 == 0:
        raise CheckerError("R6.10: no send on a Sender<ChanDatum> found")

    # ------------------------------------------------------------ R6.11 the directory walker is not run from inside its own thread pool
    # process_path walks directories with jwalk, which schedules its work on rayon's global pool and
    # gives up ("thread-pool too busy") when no pool thread becomes free.  Calling it from a closure that
    # itself runs on that pool (par_iter, rayon::scope/spawn/join) makes the result depend on how many
    # pool threads the machine has and on scheduling: with few cores whole directory arguments are
    # dropped silently.
    import re as _re611
    R611 = rep.rule("R6.11", "no function that runs a jwalk walk is called from a closure handed to rayon")
    cg611 = prog.callgraph()
    walkers = {p_ for p_, cs in cg611.items() if any("jwalk::WalkDir" in d_ and d_.endswith("::new") for d_ in cs)}
    if not walkers:
        raise CheckerError("R6.11: no function uses jwalk::WalkDir (anchor: filepreprocessor::process_path)")
    by_span = {}
    for cb_ in prog.bodies():
        if "{closure" in cb_.path:
            by_span[cb_.j.get("span", "").rsplit(":", 0)[0]] = cb_.path
    nested = []
    nray = 0
    for ob_ in prog.bodies():
        if not (ob_.path.startswith("s4::") or ob_.path.startswith("s4lib::")) or "_tests" in ob_.path:
            continue
        for c in ob_.live_calls():
            if "rayon" not in c.d:
                continue
            nray += 1
            for m_ in _re611.finditer(r"\{closure@([^ :]+:\d+:\d+)", str(c.callee.get("ga"))):
                cp_ = by_span.get(m_.group(1))
                if cp_ and (set(prog.reachable_fns([cp_])) & walkers):
                    nested.append((ob_.path, c.line, c.d.split("::")[-1], cp_))
    rep.examined(R611, "rayon-closures", sample={"functions_running_a_jwalk_walk": sorted(walkers), "calls_into_rayon_from_s4": nray, "walks_started_from_rayon_closures": [n_[:3] for n_ in nested]})
    for n_ in nested[:1]:
        rep.violation(R611, "%s|%s|walk-inside-pool" % (n_[0], n_[2]), "%s (line %d) hands rayon's %s() a closure that reaches %s; jwalk needs a free thread of the same pool and reports 'thread-pool too busy' when there is none, "
                      "so on machines with few cores directory arguments are silently dropped - the output depends on core count and scheduling" % (n_[0], n_[1], n_[2], sorted(set(prog.reachable_fns([n_[3]])) & walkers)[0].split("::")[-1]))

    # ------------------------------------------------------------ R6.12 nothing depends on the iteration order of a randomly seeded hash container
    # std's HashMap/HashSet are seeded per process: two runs of the same command iterate them in
    # different orders.  Every iteration over one (whole program, release view) must compute something
    # that is independent of that order; see hashorder.py for the recognised idioms.  Found with this
    # rule's reasoning: FixedStructReader::score_file iterated the candidate layouts (a HashMap) and kept
    # the first that reached the highest score - a 21608-byte lastlog on which two layouts tie was
    # printed under the 292-byte layout in 24 of 60 runs and under the 296-byte layout in 36 (F45).
    import hashorder
    R612 = rep.rule("R6.12", "no output and no choice depends on the iteration order of a randomly seeded HashMap/HashSet")
    sites612 = hashorder.analyse(prog)
    for n612_, s_ in enumerate(sites612):
        rep.examined(R612, "%s|%s|%s#%d" % (s_["fn"], s_["container"], s_["producer"], n612_), sample={"function": s_["fn"], "line": s_["line"], "container": s_["container"], "verdict": s_["verdict"], "why": s_["why"][:3]})
        if s_["verdict"] == "sensitive":
            rep.violation(R612, "%s|%s|hash-order" % (s_["fn"], s_["container"]), "%s (line %s) iterates a %s, whose order changes from run to run (randomly seeded hasher), and %s; "
                          "the same command on the same files can print different bytes" % (s_["fn"], s_["line"], s_["container"], "; ".join(s_["why"][:2])))
    if len(sites612) < 3:
        raise CheckerError("R6.12: only %d iterations over hash containers found (processing_loop alone has several)" % len(sites612))

    if not c01_run_ok and not rep.violations:
        raise c01_deferred
    return rep.finish(
        "Static necessary-condition check of the coordination protocol: typestate fixpoint of the worker protocol over all CFG paths of the four "
        "worker functions (no return before FileInfo, no send after FileSummary), the coordinator's wait condition and books (C01 R1.2/R1.3), "
        "the set of exits of the coordinator loop and the disconnect sweep, a blocking inventory (registry touched only by the coordinator and "
        "the signal handler, select under a read guard, join only after the registry is cleared), and schedule-independent colour assignment.",
        ["fairness of the OS scheduler", "termination of the readers' own loops on adversarial files (C07)", "wall-clock promptness"])


def _run_c01_rules(prog, sub):
    # run C01's rule body without finishing (no evidence/violation files for C01 from here)
    orig_finish = sub.finish
    sub.finish = lambda *a, **k: 0
    c01.run(prog, sub, "quick")
    sub.finish = orig_finish
