"""C12 — the read block size never changes what is printed.

Decides:
  R12.1 no acceptance threshold keyed by block length: in the blockzero_analysis_* family, a value
        derived from the length of block zero must not select the count that decides between FileOk
        and a FileErr* result.  (Fires today: known finding F4.)
  R12.2 every block returned by any reader is completely filled (C05 R5.1/R5.1b/R5.1c), and output
        ordering cannot depend on how bytes are split into parts: a direct write to stdout happens
        only after the pending buffer was written (C02 R2.4).
  R12.3 the CLI bounds are the ones the code enforces: cli_process_blocksz compares against the
        const-evaluated BLOCKSZ_MIN/BLOCKSZ_MAX.
Does not decide: offset <-> (block, index) arithmetic, last-block length, multi-block line assembly,
timestamps straddling a boundary, which byte classes get the colour highlight at a boundary.
"""
import contextlib
import io

import c02
import c05
from c05 import forward_taint
from common import Report
from mir import CheckerError, op_local

SP = "s4lib::readers::syslogprocessor::SyslogProcessor"


def _sub(prog, rep, mod, pid):
    sub = Report(pid, "quick", dict(rep.meta))
    sub.finish = lambda *a, **k: 0
    with contextlib.redirect_stdout(io.StringIO()):
        mod.run(prog, sub, "quick")
    return sub


def r121(prog, rep, R121):
    """threshold-by-block-length findings of the blockzero_analysis family (shared with C02 R2.7)"""
    fam = [p for p in prog.facts.bodies if p.startswith(SP + "::blockzero_analysis") and "{closure" not in p]
    if len(fam) < 3:
        raise CheckerError("blockzero_analysis family has %d members" % len(fam))
    for p in sorted(fam):
        b = prog.body(p)
        # seeds: lengths of a block (Vec<u8>::len on an Arc<Vec<u8>> deref) and blocksz()
        seeds = set()
        for c in b.live_calls():
            if c.d.endswith("Vec::<T, A>::len") and "u8" in (c.callee.get("self") or c.f):
                seeds.add(c.dest[0])
            if c.d.endswith("::blocksz") or c.d.endswith("::blocksz_at_blockoffset"):
                seeds.add(c.dest[0])
        taint = forward_taint(b, seeds)
        # a block length stays a block length through max/min/clamp and conversions
        grew = True
        while grew:
            n_t = len(taint)
            for c in b.live_calls():
                if c.dest and c.dest[0] not in taint and (c.o or c.d).split("::")[-1] in ("max", "min", "clamp", "into", "from", "try_into", "unwrap", "saturating_sub", "saturating_add") \
                        and any(a[0] in ("cp", "mv") and a[1][0] in taint for a in c.args):
                    taint.add(c.dest[0])
            taint = forward_taint(b, taint)
            grew = len(taint) != n_t
        lookups = [c for c in b.live_calls() if "RangeMap" in c.d and c.d.endswith("::get")]
        flagged = False
        for c in lookups:
            key_tainted = any(a[0] in ("cp", "mv") and a[1][0] in taint for a in c.args[1:])
            if not key_tainted:
                continue
            # the looked-up value decides the result: it feeds a comparison in a switch from which different results are returned
            vt = forward_taint(b, {c.dest[0]})
            changed = True
            while changed:
                n0 = len(vt)
                for c2 in b.live_calls():
                    if c2.dest[0] not in vt and any(a[0] in ("cp", "mv") and a[1][0] in vt for a in c2.args) and c2.d.endswith("::unwrap"):
                        vt.add(c2.dest[0])
                vt = forward_taint(b, vt)
                # loads through a reference: `_x = (*_y)`
                for bb in b.live:
                    for s in b.stmts(bb):
                        if s[0] == "=" and s[2][0] == "use" and s[2][1][0] in ("cp", "mv") and s[2][1][1][0] in vt and s[1][0] not in vt:
                            vt.add(s[1][0])
                changed = len(vt) != n0
            decides = False
            for bb in sorted(b.live):
                t = b.term(bb)
                if t[0] != "switch":
                    continue
                l = op_local(t[1])
                for d in b.defs.get(l, []) if l is not None else []:
                    if d[1] != "call" and d[2][0] == "bin" and d[2][1] in ("Lt", "Le", "Gt", "Ge", "Eq", "Ne"):
                        if any(o[0] in ("cp", "mv") and o[1][0] in vt for o in (d[2][2], d[2][3])):
                            decides = True
            # which table: identified by its content (ranges and minimum counts from the lazy initialiser),
            # so that a renamed static keeps its key while a different table is a different finding
            sig = "?"
            for x in b.origins(c.args[0]):
                if x[0] == "call" and "as std::ops::Deref>::deref" in x[2]:
                    ib = prog.body(x[2] + "::__static_ref_initialize", required=False)
                    if ib is not None:
                        ents = []
                        for ic in ib.live_calls():
                            if "RangeMap" in ic.d and ic.d.endswith("::insert") and len(ic.args) == 3 and ic.args[2][0] == "k":
                                rng = []
                                for o in ib.origins(ic.args[1]):
                                    if o[0] == "agg":
                                        st_ = ib.stmts(o[1])[o[2]]
                                        rng = [ib.eval_int(a) if ib.eval_int(a) is not None else "?" for a in st_[2][2]]
                                ents.append("%s..%s=%s" % (rng[0] if rng else "?", ("max" if rng and rng[1] == 18446744073709551615 else rng[1]) if len(rng) > 1 else "?", ic.args[2][2]))
                        if ents:
                            sig = ",".join(ents)
            # what else the lookup key is computed from (a key of max(block length, file size) selects
            # differently from the block length alone and is a different finding)
            extra = set()
            seen_k, work_k = set(), [a for a in c.args[1:] if a[0] != "k"]
            while work_k and len(seen_k) < 40:
                cur_k = work_k.pop()
                for o_k in b.origins(cur_k):
                    if o_k[0] == "call" and o_k[1] not in seen_k:
                        seen_k.add(o_k[1])
                        ck = [z for z in b.calls if z.bb == o_k[1]][0]
                        nk = (ck.o or ck.d).split("::")[-1]
                        if nk in ("len", "blocksz", "blocksz_at_blockoffset"):
                            continue        # the block length itself; where the block came from is not part of the key
                        if nk not in ("deref", "as_ref", "clone", "into", "from", "try_into", "unwrap"):
                            extra.add(nk)
                        work_k.extend(a for a in ck.args if a[0] != "k")
            extra_s = ("|key+" + ",".join(sorted(extra))) if extra else ""
            rep.examined(R121, "%s|lookup" % p, sample={"fn": p.split("::")[-1], "lookup": c.f[:80], "key_from_block_length": key_tainted, "key_also_from": sorted(extra), "value_decides_a_branch": decides})
            if decides:
                flagged = True
                rep.violation(R121, "%s|threshold-by-block-length|%s%s" % (p, sig, extra_s),
                              "%s: the minimum count that decides whether the file is accepted is looked up by the length of block zero%s (table %s); the same file is accepted at one --blocksz and rejected at another" % (
                                  p, (" combined with " + ", ".join(sorted(extra)) + "()") if extra else "", sig))
        mins = [c for c in b.live_calls() if c.d.endswith("cmp::min") or c.o.endswith("Ord::min")]
        if not lookups:
            rep.examined(R121, "%s|no-lookup" % p, sample={"fn": p.split("::")[-1], "range_lookups": 0, "min_calls": len(mins)})


def threshold_tables(prog):
    """{initializer path: [(start, end|'max', value)]} for the lazy RangeMap tables of the stage-1 analysis"""
    res = {}
    for p in sorted(prog.facts.bodies):
        if not p.endswith("::__static_ref_initialize") or "syslogprocessor" not in p:
            continue
        ib = prog.body(p)
        ents = []
        for ic in ib.live_calls():
            if "RangeMap" in ic.d and ic.d.endswith("::insert") and len(ic.args) == 3 and ic.args[2][0] == "k":
                rng = []
                for o in ib.origins(ic.args[1]):
                    if o[0] == "agg":
                        st_ = ib.stmts(o[1])[o[2]]
                        rng = [ib.eval_int(a) for a in st_[2][2]]
                if len(rng) == 2:
                    ents.append((rng[0], "max" if rng[1] == 18446744073709551615 else rng[1], ic.args[2][2], ic.line))
        if ents:
            res[p] = ents
    return res


def partial_extent(prog, rep, R):
    """A partial Line (newline not found inside the block) must be able to extend to the end of the
    scanned block: the variable that gives the end index of the LinePart built in
    LineReader::find_line_in_block needs a definition tied to the block's length.  Without one the
    partial Line ends where the scan *started*, the stage-1 datetime parse of a first line longer than
    the block sees one byte, and the file is rejected at that --blocksz although it prints at a larger one."""
    LRp = "s4lib::readers::linereader::LineReader::find_line_in_block"
    b = prog.body(LRp)
    lps = [c for c in b.live_calls() if c.d == "s4lib::data::line::LinePart::new"]
    if not lps:
        raise CheckerError("find_line_in_block: no LinePart::new")
    names = {i: l.get("name") for i, l in enumerate(b.locals) if l.get("name")}
    lens = set(c.dest[0] for c in b.live_calls() if c.d.split("::")[-1] == "len" and ("Vec" in c.d or "slice" in c.d))

    def from_len(l, seen):
        """some definition of local l derives from a len() result"""
        if l in seen:
            return False
        seen.add(l)
        if l in lens:
            return True
        for d in b.defs.get(l, []):
            if d[1] == "call":
                continue
            rv = d[2]
            ops = [rv[1]] if rv[0] == "use" else ([rv[2], rv[3]] if rv[0] == "bin" else ([rv[2]] if rv[0] in ("cast", "un") else []))
            for o in ops:
                l2 = op_local(o)
                if l2 is not None and from_len(l2, seen):
                    return True
        return False
    ends = {}
    for c in lps:
        # the end-index operand is argument 2; walk to the named variable(s) it is computed from
        l = op_local(c.args[2])
        seen = set()
        work = [l]
        vars_ = set()
        while work:
            x = work.pop()
            if x is None or x in seen:
                continue
            seen.add(x)
            if names.get(x):
                vars_.add(x)
                continue
            for d in b.defs.get(x, []):
                if d[1] == "call":
                    continue
                rv = d[2]
                ops = [rv[1]] if rv[0] == "use" else ([rv[2], rv[3]] if rv[0] == "bin" else ([rv[2]] if rv[0] in ("cast", "un") else []))
                for o in ops:
                    work.append(op_local(o))
        for v in vars_:
            ends.setdefault(v, []).append(c.line)
    if not ends:
        raise CheckerError("find_line_in_block: end index of LinePart::new not traced to a variable")
    for v, lines in sorted(ends.items()):
        ok = from_len(v, set())
        inst = "%s|%s" % (LRp, names[v])
        rep.examined(R, inst, sample={"end_index_variable": names[v], "used_at_lines": lines, "has_definition_from_block_length": ok})
        if not ok:
            rep.violation(R, inst, "find_line_in_block: `%s`, the end index of the LinePart it builds (lines %s), is never set from the block's length; a partial Line (no newline inside the block) ends where the scan started. "
                          "A log whose first line is longer than --blocksz is then rejected in stage 1 (0 lines printed) while the same file prints at a larger block size" % (names[v], lines))


def run(prog, rep, tier):
    R121 = rep.rule("R12.1", "no file-acceptance threshold is selected by the length of block zero")
    R122 = rep.rule("R12.2", "blocks are completely filled; write order independent of part sizes (from C05, C02)")
    R123 = rep.rule("R12.3", "CLI block-size bounds are the constants the code enforces")

    # ------------------------------------------------------------ R12.1
    r121(prog, rep, R121)
    # the bytes test `min(BLOCKZERO_ANALYSIS_BYTES_MIN, blocksz)` is constant over the permitted range
    cmin = prog.facts.consts.get(SP + "::BLOCKZERO_ANALYSIS_BYTES_MIN")
    bmin = prog.facts.consts.get("s4::BLOCKSZ_MIN") or prog.facts.consts.get("s4lib::readers::blockreader::BLOCKSZ_MIN")
    lo = None
    for k, v in prog.facts.consts.items():
        if k.endswith("::BLOCKSZ_MIN") and isinstance(v["value"], int):
            lo = max(lo or 0, v["value"]) if k.startswith("s4::") else lo
    rep.examined(R121, SP + "|bytes-min", sample={"BLOCKZERO_ANALYSIS_BYTES_MIN": cmin["value"] if cmin else None, "cli_min_blocksz": lo})
    if cmin and lo is not None and cmin["value"] > lo:
        rep.violation(R121, SP + "|bytes-min", "blockzero_analysis_bytes: min(BLOCKZERO_ANALYSIS_BYTES_MIN=%s, blocksz) varies over the permitted block sizes (minimum %s)" % (cmin["value"], lo))

    # ------------------------------------------------------------ R12.2 (lifted)
    s5 = _sub(prog, rep, c05, "C05")
    for (rid, key, what, detail) in s5.violations:
        if rid in ("R5.1", "R5.1b", "R5.1c", "R5.2", "R5.8", "R5.4"):
            rep.violation(R122, key.split("|", 1)[1], what)
    # R5.4: whether blocks of a streamed accounting file survive the reader's repeated passes depends on how many
    # blocks the file has, i.e. on the block size
    for rid in ("R5.1", "R5.1b", "R5.2", "R5.8", "R5.4"):
        for s in s5.rules.get(rid, {}).get("samples", []):
            rep.examined(R122, "%s|%s" % (rid, str(s)[:60]), sample=s)
    s2 = _sub(prog, rep, c02, "C02")
    for (rid, key, what, detail) in s2.violations:
        if rid in ("R2.4", "R2.9"):
            # R2.9: whether a message is cut at the end of block zero depends on where the block ends
            rep.violation(R122, key.split("|", 1)[1] + ("" if rid == "R2.4" else "|" + rid), what)
    for rid in ("R2.4", "R2.9"):
        for s in s2.rules.get(rid, {}).get("samples", []):
            rep.examined(R122, "%s|%s" % (rid, str(s)[:60]), sample=s)

    # ------------------------------------------------------------ R12.3
    cb = prog.body("s4::cli_process_blocksz")
    consts = {}
    for k, v in prog.facts.consts.items():
        if k in ("s4::BLOCKSZ_MIN", "s4::BLOCKSZ_MAX") or k.endswith("SyslogProcessor::BLOCKSZ_MIN") or k.endswith("blockreader::BLOCKSZ_MIN") or k.endswith("blockreader::BLOCKSZ_MAX"):
            consts[k] = v["value"]
    cmps = []
    for bb in sorted(cb.live):
        t = cb.term(bb)
        if t[0] != "switch":
            continue
        l = op_local(t[1])
        for d in cb.defs.get(l, []) if l is not None else []:
            if d[1] != "call" and d[2][0] == "bin" and d[2][1] in ("Lt", "Le", "Gt", "Ge"):
                for o in (d[2][2], d[2][3]):
                    if o[0] == "k" and isinstance(o[2], int):
                        cmps.append((d[2][1], o[2]))
                    elif o[0] in ("cp", "mv"):
                        for x in cb.origins(o):
                            if x[0] == "const":
                                try:
                                    cmps.append((d[2][1], int(x[1])))
                                except Exception:
                                    pass
    rep.examined(R123, cb.path, sample={"constants": consts, "comparisons_against_constants": cmps})
    vals = set(v for _, v in cmps)
    # the lower bound is max(BLOCKSZ_MIN, SyslogProcessor::BLOCKSZ_MIN): constants flow into cmp::max, its result into the comparison
    for c in cb.live_calls():
        if c.d.startswith("std::cmp::max") or c.d.startswith("core::cmp::max") or c.d.endswith("cmp::Ord::max"):
            used = any(any(x[0] == "call" and x[1] == c.bb for x in cb.origins(o)) for bb in sorted(cb.live) for s_ in cb.stmts(bb)
                       if s_[0] == "=" and s_[2][0] == "bin" and s_[2][1] in ("Lt", "Le", "Gt", "Ge") for o in (s_[2][2], s_[2][3]) if o[0] != "k")
            if used:
                for a in c.args:
                    if a[0] == "k" and isinstance(a[2], int):
                        vals.add(a[2])
                    elif a[0] != "k":
                        for x in cb.origins(a):
                            if x[0] == "const":
                                try:
                                    vals.add(int(x[1]))
                                except Exception:
                                    pass
    lows = [v for k, v in consts.items() if k.endswith("BLOCKSZ_MIN")]
    highs = [v for k, v in consts.items() if k.endswith("blockreader::BLOCKSZ_MAX")]
    if len(lows) < 2 or len(highs) != 1:
        raise CheckerError("block-size bound constants not found (%s)" % sorted(consts))
    want_lo, want_hi = max(lows), highs[0]
    rep.examined(R123, cb.path + "|bounds", sample={"enforced_values": sorted(vals), "BLOCKSZ_MIN constants": sorted(lows), "BLOCKSZ_MAX": want_hi})
    if not all(l in vals for l in lows) or want_hi not in vals:
        rep.violation(R123, cb.path + "|bounds", "cli_process_blocksz: does not compare the requested size with max(BLOCKSZ_MIN constants %s) and BLOCKSZ_MAX=%s (compares with %s)" % (sorted(lows), want_hi, sorted(vals)))

    # ------------------------------------------------------------ R12.4 the stage-1 byte test looks at a constant-length prefix
    import blockzero
    R124 = rep.rule("R12.4", "the stage-1 NUL-byte test examines a prefix of constant length, not the whole first block")
    bzb, tests = blockzero.analyze(prog)
    if len(tests) != 1:
        raise CheckerError("blockzero_analysis_bytes: %d quantified byte tests leading to FileErrNullBytes (expected 1)" % len(tests))
    t0 = tests[0]
    rep.examined(R124, bzb.path + "|nul-test", sample=t0)
    if t0["take"] is None:
        rep.violation(R124, bzb.path + "|nul-test", "blockzero_analysis_bytes: the NUL-byte test (line %d) ranges over the whole first block (iterator chain %s, no take(CONST)); whether a file that begins with a run of NUL "
                      "bytes is rejected then depends on --blocksz (rejected when the block ends inside the run, printed otherwise)" % (t0["line"], t0["chain"]))
    # ------------------------------------------------------------ R12.5 lift of C11 R11.3
    import contextlib as _cl, io as _io
    import c11 as _c11
    R125 = rep.rule("R12.5", "a streamed year-less log keeps its blocks on every accepting path (from C11 R11.3)")
    _sub11 = Report("C11", "quick", dict(rep.meta))
    _sub11.finish = lambda *a, **k: 0
    with _cl.redirect_stdout(_io.StringIO()):
        _c11.run(prog, _sub11, "quick")
    for (rid_, key_, what_, det_) in _sub11.violations:
        if rid_ == "R11.3":
            rep.violation(R125, key_.split("|", 1)[1], what_ + " [the cut depends on the number of blocks, i.e. on --blocksz]")
    for k_ in sorted(_sub11.rules.get("R11.3", {}).get("keys", ())):
        rep.examined(R125, k_, sample={"rule": "R11.3", "instance": k_})
    rep.floor("R12.5", 2)

    # ------------------------------------------------------------ R12.7 lift of C13 R13.8
    import c13 as _c13
    R127 = rep.rule("R12.7", "the datetime highlight does not depend on where block boundaries fall inside a line (from C13 R13.8)")
    _sub13 = Report("C13", "quick", dict(rep.meta))
    _sub13.finish = lambda *a, **k: 0
    with _cl.redirect_stdout(_io.StringIO()):
        _c13.run(prog, _sub13, "quick")
    for (rid_, key_, what_, det_) in _sub13.violations:
        if rid_ == "R13.8":
            rep.violation(R127, key_.split("|", 1)[1], what_)
    for k_ in sorted(_sub13.rules.get("R13.8", {}).get("keys", ())):
        rep.examined(R127, k_, sample={"rule": "R13.8", "instance": k_})
    rep.floor("R12.7", 4)

    # ------------------------------------------------------------ R12.6
    R126 = rep.rule("R12.6", "a partial line found by the block-bounded line search can extend to the end of the block")
    partial_extent(prog, rep, R126)

    # ------------------------------------------------------------ R12.8 the datetime search sees the same bytes however many blocks they span
    # find_datetime_in_line asks the line for the byte range a pattern wants; the line answers with
    # one, two or many pieces depending on where block boundaries fall.  For the answer not to depend
    # on the block size the two-piece arm has to join *both* pieces on every path (and the many-piece
    # arm every piece).  A shortcut that searches the first piece alone when it is "long enough" makes
    # a timestamp that straddles the boundary unreadable at that block size only.
    R128 = rep.rule("R12.8", "the two-block arm of the datetime search joins both pieces on every path")
    fdb = prog.body("s4lib::readers::syslinereader::SyslineReader::find_datetime_in_line")
    heads = {}
    for bb in sorted(fdb.live):
        for st in fdb.stmts(bb):
            if st[0] == "=" and st[2][0] == "use" and st[2][1][0] != "k":
                for e in st[2][1][1][1:]:
                    if isinstance(e, list) and e[0] == "as" and e[1] in ("SinglePtr", "DoublePtr", "MultiPtr"):
                        heads.setdefault(e[1], bb)
    if set(heads) != {"SinglePtr", "DoublePtr", "MultiPtr"}:
        raise CheckerError("find_datetime_in_line: LinePartPtrs arms not found (%s)" % sorted(heads))
    exts = {"0": set(), "1": set()}
    for c in fdb.live_calls():
        if c.d.split("::")[-1] == "extend_from_slice" and len(c.args) > 1:
            for o_ in fdb.origins(c.args[1]):
                if o_[0] == "call" and "as DoublePtr" in str(o_[3]):
                    exts[str(o_[3][1])].add(c.bb)
    disp = set(fdb.pred[heads["DoublePtr"]]) | set(fdb.pred[heads["SinglePtr"]])   # the dispatch on the number of pieces (inside the pattern loop)
    join = (set(fdb.reachable(heads["DoublePtr"], disp)) - {heads["DoublePtr"]}) & (set(fdb.reachable(heads["SinglePtr"], disp)) - {heads["SinglePtr"]})
    # unwind/cleanup blocks are shared by all arms too; only blocks from which the function can still return count
    join = {j for j in join if any(fdb.term(x)[0] == "ret" for x in fdb.reachable(j))}
    missing = []
    for k_ in ("0", "1"):
        if not exts[k_] or (join & set(fdb.reachable(heads["DoublePtr"], exts[k_] | disp))):
            missing.append("first" if k_ == "0" else "second")
    rep.examined(R128, fdb.path + "|double-piece-arm", sample={"arm_head": heads["DoublePtr"], "appends_of_first_piece": sorted(exts["0"]), "appends_of_second_piece": sorted(exts["1"]), "pieces_that_can_be_skipped": missing})
    if not join:
        raise CheckerError("find_datetime_in_line: the arms do not join")
    if missing:
        rep.violation(R128, fdb.path + "|double-piece-arm|piece-skipped", "find_datetime_in_line: when the requested bytes span two blocks there is a path that does not append the %s piece before the search; "
                      "a timestamp that straddles the block boundary is then not found at that block size, the line is glued to the previous message, and the output differs from the default block size" % missing[0])

    # ------------------------------------------------------------ R12.9 a known preceding line always short-cuts the backward search
    # find_line looks for the start of a line by scanning backwards, possibly into the previous block.
    # When the preceding line is already stored (`get_linep(fileoffset - 1)`) the scan is skipped.  For
    # streamed (compressed) files that is not just faster: the previous block has been dropped, so a
    # backward scan from a line that begins exactly on a block boundary ends the file.  The stored-line
    # shortcut must therefore not be weakened by a condition on where in the block the line begins
    # (an `Option` adapter between the lookup and its test).
    R129 = rep.rule("R12.9", "the result of the stored-line lookup in find_line is tested as it is (no filter on the position in the block)")
    flb = prog.body(LR + "::find_line") if "LR" in globals() else prog.body("s4lib::readers::linereader::LineReader::find_line")
    gl = [c for c in flb.live_calls() if c.d.endswith("LineReader::get_linep")]
    if not gl:
        raise CheckerError("find_line: no get_linep call")
    weakened = []
    for fb_ in [flb] + list(prog.closures_in(flb.path)):
        pass
    for c in flb.live_calls():
        nm_ = (c.o or c.d).split("::")[-1]
        if nm_ in ("filter", "and_then", "take_if", "xor", "zip", "filter_map") and "Option" in (c.callee.get("self") or c.d) and c.args:
            if any(o_[0] == "call" and any(g.bb == o_[1] for g in gl) for o_ in flb.origins(c.args[0])):
                weakened.append((nm_, c.line))
    rep.examined(R129, flb.path + "|stored-line-shortcut", sample={"stored_line_lookups": len(gl), "adapters_on_the_lookup_result": weakened})
    if weakened:
        rep.violation(R129, flb.path + "|stored-line-shortcut|weakened", "find_line (line %d) passes the stored preceding line through Option::%s() before testing it; when the condition fails the function scans backwards into the previous block, "
                      "which a streamed .gz/.bz2/.lz4 reader has already dropped - every line from one that begins on a block boundary on is silently missing, at that block size only" % (weakened[0][1], weakened[0][0]))

    return rep.finish(
        "Static necessary-condition check: (R12.1) no value derived from the length of block zero may select the count that decides file "
        "acceptance (taint from Vec<u8>::len to a RangeMap lookup key to the deciding comparison) - fires today at blockzero_analysis_lines and "
        "_syslines (known finding F4); (R12.2) blocks handed out by every decoder are completely filled and direct stdout writes are ordered "
        "after the pending buffer; (R12.3) the CLI enforces the const-evaluated bounds.",
        ["offset <-> (block, index) arithmetic", "last-block length", "multi-block line assembly", "timestamps and colour highlights straddling a block boundary"])
