"""C17 — memory held for a streamed text log does not grow with its size.

Decides (the release path exists and runs on every iteration; not the bound itself):
  R17.1 in the streaming loop of exec_syslogprocessor, every way round the loop that sent a non-last
        message while a previous message exists passes drop_data_try(previous), and the previous
        message is re-armed on every way round; the chain drop_data_try -> drop_data ->
        SyslineReader::drop_data -> drop_sysline -> LineReader::drop_lines -> drop_line ->
        BlockReader::drop_block is a live call chain and each level removes the entry from its own
        container; drop_lines releases EVERY line of the message (a loop that only ends at
        exhaustion, no short-circuiting adapter).
  R17.2 the guarding constants are on (STREAM_STAGE_DROP, READ_BLOCK_LOOKBACK_DROP) and every
        streamed decoder named by the property (Bz2, Gz, Lz4) drops the previous block after storing
        a new one.
  R17.3 every container field of the three readers that owns file data (elements holding an Arc) has
        a removal reachable from drop_data_try.
Does not decide: the actual bound, Arc reference counts at run time (a failed try_unwrap silently
keeps data; this is why the channel capacity matters), the logarithmic term of the binary search.
"""
import decide
from mir import CheckerError, op_local

W = "s4::exec_syslogprocessor"
SP = "s4lib::readers::syslogprocessor::SyslogProcessor"
SR = "s4lib::readers::syslinereader::SyslineReader"
LR = "s4lib::readers::linereader::LineReader"
BR = "s4lib::readers::blockreader::BlockReader"
SHORT = ("any", "all", "find", "find_map", "position", "try_for_each", "try_fold", "take_while", "skip_while", "next", "nth", "last", "take")


def run(prog, rep, tier):
    R171 = rep.rule("R17.1", "release path runs every iteration and reaches every level")
    R172 = rep.rule("R17.2", "drop switches are on; streamed decoders drop the previous block")
    b = prog.body(W)

    # ---------- streaming loop
    finds = [c for c in b.live_calls() if c.d.endswith("::find_sysline_between_datetime_filters")]
    drops = [c for c in b.live_calls() if c.d == SP + "::drop_data_try"]
    finds = [c for c in finds if any(c.bb in b.loop_blocks(hh) for t_, hh in b.back_edges())]
    if len(finds) != 1:
        raise CheckerError("exec_syslogprocessor: %d streaming find calls inside loops" % len(finds))
    heads = [h for t, h in b.back_edges() if finds[0].bb in b.loop_blocks(h)]
    if not heads:
        raise CheckerError("exec_syslogprocessor: streaming loop not found")
    h = min(heads, key=lambda x: len(b.loop_blocks(x)))
    L = b.loop_blocks(h)
    sends = []
    for c in b.live_calls():
        if c.d == "s4::chan_send" and c.bb in L:
            for x in b.origins(c.args[1]):
                if x[0] == "agg":
                    k = b.stmts(x[1])[x[2]][2][1]
                    if isinstance(k, dict) and k.get("variant") == "NewMessage":
                        sends.append(c)
    if len(sends) != 1:
        raise CheckerError("exec_syslogprocessor: %d NewMessage sends in the streaming loop" % len(sends))
    snd = sends[0]
    prev_locals = [i for i, l in enumerate(b.locals) if l.get("name") and l["ty"].startswith("std::option::Option<std::sync::Arc<s4lib::data::sysline::Sysline>")]
    dropb = set(d.bb for d in drops if d.bb in L)

    def end_of(bb):
        if bb == h:
            return "back"
        if bb not in L:
            return "exit"
        return None
    rounds = 0
    missing = 0
    unarmed = 0
    for p in decide.enumerate_paths(b, snd.target, end_of, opaque_ok=lambda bb: True, max_paths=20000):
        if p.end != "back":
            continue
        rounds += 1
        has_prev = None
        for d in p.decisions:
            if d[0] in ("variant", "variant_not") and d[1][0] == "local" and d[1][1] in prev_locals:
                if d[0] == "variant":
                    has_prev = (d[2] == 1)
                else:
                    has_prev = 1 not in d[2]
        if has_prev and not (set(p.blocks) & dropb):
            missing += 1
        # re-arm: an assignment Some(..) to a previous-message local on this way round
        armed = False
        for bb in p.blocks:
            for s in b.stmts(bb):
                if s[0] == "=" and len(s[1]) == 1 and s[1][0] in prev_locals:
                    o = b.origins(["cp", s[1]])
                    armed = True
        if not armed:
            unarmed += 1
    rep.examined(R171, W + "|loop", sample={"ways_round_the_loop_after_send": rounds, "with_previous_but_no_drop": missing, "without_rearming_previous": unarmed,
                                            "drop_calls_in_loop": len(dropb)})
    if not dropb:
        rep.violation(R171, W + "|loop|no-drop", "exec_syslogprocessor: the streaming loop never calls drop_data_try; every block, line and message read stays in memory")
    elif missing:
        rep.violation(R171, W + "|loop|skip", "exec_syslogprocessor: the streaming loop can go round after sending a message, with a previous message at hand, without calling drop_data_try on it")
    if unarmed and rounds:
        rep.violation(R171, W + "|loop|rearm", "exec_syslogprocessor: a way round the streaming loop does not remember the message just sent as the next one to release")
    if rounds == 0:
        raise CheckerError("exec_syslogprocessor: no way round the streaming loop after the send")

    # ---------- whether the release pass runs does not depend on the shape of the message just printed
    # drop_data_try may hold back only for the feature switches and for "still within the first two
    # blocks" (a progress condition on the block offset).  A test on the message itself - it fits in one
    # block, has one line, is short - makes the release depend on how record and block boundaries fall:
    # with fixed-size records that divide the block size nothing would ever be released.
    tb_ = prog.body(SP + "::drop_data_try")
    dcall = [c for c in tb_.live_calls() if c.d == SP + "::drop_data"]
    if len(dcall) != 1:
        raise CheckerError("drop_data_try: %d calls of drop_data" % len(dcall))
    dcb = dcall[0].bb
    ALLOWED_MSG = ("blockoffset_first", "blockoffset_last", "fileoffset_begin", "fileoffset_end", "fileoffset_next", "deref", "as_ref")  # position queries
    shape_tests = []
    nctl = 0
    for sbb in sorted(tb_.live):
        t = tb_.term(sbb)
        if t[0] != "switch" or dcb not in tb_.reachable(sbb):
            continue
        if not any(tb_.term(x)[0] == "ret" for x in tb_.reachable(sbb, {dcb})):
            continue
        nctl += 1
        seen_, work_ = set(), [t[1]]
        while work_ and len(seen_) < 60:
            cur_ = work_.pop()
            for o_ in tb_.origins(cur_, through_calls=("ops::Not>::not",)):
                if o_[0] == "bin":
                    st_ = tb_.stmts(o_[1])[o_[2]]
                    work_.extend(x for x in (st_[2][2], st_[2][3]) if x[0] != "k")
                elif o_[0] == "call" and o_[1] not in seen_:
                    seen_.add(o_[1])
                    cc_ = [z for z in tb_.calls if z.bb == o_[1]][0]
                    nm_ = (cc_.o or cc_.d).split("::")[-1]
                    on_msg = any(x[0] == "arg" and x[1] == 2 for a_ in cc_.args if a_[0] != "k" for x in tb_.origins(a_, through_calls=("::deref", "::as_ref")))
                    if on_msg and nm_ not in ALLOWED_MSG:
                        shape_tests.append((nm_, cc_.line))
                    work_.extend(a_ for a_ in cc_.args if a_[0] != "k")
    rep.examined(R171, SP + "::drop_data_try|guards", sample={"switches_that_can_skip_the_release": nctl, "tests_of_the_message_itself": shape_tests})
    if nctl == 0:
        raise CheckerError("drop_data_try: no guard of the drop_data call found")
    if shape_tests:
        rep.violation(R171, SP + "::drop_data_try|guards|message-shape", "drop_data_try (line %d) holds the release pass back depending on %s() of the message just printed; when every block boundary falls between messages "
                      "(fixed-size records, power-of-two block size) nothing is ever released and lines/messages high equal the whole file" % (shape_tests[0][1], shape_tests[0][0]))

    # ---------- must-call chain
    chain = [SP + "::drop_data_try", SP + "::drop_data", SR + "::drop_data", SR + "::drop_sysline", LR + "::drop_lines", LR + "::drop_line", BR + "::drop_block"]
    for a, c_ in zip(chain, chain[1:]):
        ab = prog.body(a)
        # direct or through a closure of a
        callers = [ab] + prog.closures_in(a)
        hit = any(any(x.d == c_ for x in bd.live_calls()) for bd in callers)
        rep.examined(R171, "%s->%s" % (a.split("::")[-1], c_.split("::", 3)[-1]), sample={"caller": a, "callee": c_, "live_call": hit})
        if not hit:
            rep.violation(R171, "chain|%s|%s" % (a, c_.split("::")[-1]), "%s no longer calls %s on a live path; printed data below that level is never released" % (a, c_))
    # each level removes from its own container
    for fn, what in ((SR + "::drop_sysline", "sysline map"), (LR + "::drop_line", "line map"), (BR + "::drop_block", "block map")):
        fb = prog.body(fn)
        rem = [c for c in fb.live_calls() if c.d.split("::")[-1] in ("remove", "pop", "remove_entry") and ("Map" in c.d or "LruCache" in c.d or "lru::" in c.d or "Set" in c.d)]
        rep.examined(R171, fn + "|remove", sample={"fn": fn, "container_removals": [c.d.split("::")[-2:] for c in rem][:4]})
        if not any("Map" in c.d for c in rem):
            rep.violation(R171, fn + "|remove", "%s does not remove the entry from the %s" % (fn, what))
    # drop_lines releases every line
    dl = prog.body(LR + "::drop_lines")
    calls = [c for c in dl.live_calls() if c.d == LR + "::drop_line"]
    shortc = [c for c in dl.live_calls() if c.o.startswith("std::iter::Iterator::") and c.o.split("::")[-1] in SHORT and not c.o.endswith("::next")]
    inst = LR + "::drop_lines|exhaustive"
    okx = False
    why = ""
    if calls:
        hd = [hh for t, hh in dl.back_edges() if calls[0].bb in dl.loop_blocks(hh)]
        if hd:
            LL = dl.loop_blocks(hd[0])
            exits = [(x, s) for x in sorted(LL) for s in dl.succ[x] if s not in LL and dl.term(s)[0] != "unreachable"]
            bad = []
            for (x, s) in exits:
                sd = decide.switch_decisions(dl, x) if dl.term(x)[0] == "switch" else None
                fine = False
                if sd:
                    for tgt, d in sd:
                        if tgt == s and d[0] == "variant" and d[1][0] == "call" and d[1][1] == "next" and d[2] == 0:
                            fine = True
                if not fine:
                    bad.append((x, s))
            okx = not bad
            why = "loop exits %s" % bad
        else:
            why = "drop_line is not called in a loop"
    else:
        why = "drop_line is handed to an iterator adapter (%s)" % [c.o.split("::")[-1] for c in shortc] if shortc else "no drop_line call"
    rep.examined(R171, inst, sample={"direct_calls": len(calls), "short_circuit_adapters": [c.o.split("::")[-1] for c in shortc], "exhaustive": okx})
    if not okx or shortc:
        rep.violation(R171, inst, "LineReader::drop_lines does not release every line of the message (%s); the lines after the first one that straddles a block boundary stay in memory with their blocks" % (why or "short-circuiting adapter %s" % [c.o.split("::")[-1] for c in shortc]))

    # ------------------------------------------------------------ R17.2
    for cname in (SP + "::STREAM_STAGE_DROP", BR + "::READ_BLOCK_LOOKBACK_DROP"):
        c = prog.facts.consts.get(cname)
        rep.examined(R172, cname, sample={"const": cname, "value": c["value"] if c else None})
        if not c:
            raise CheckerError("const %s not found" % cname)
        if c["value"] is not True:
            rep.violation(R172, cname, "%s is %s; streamed data is never released" % (cname, c["value"]))
    for r in ("read_block_FileBz2", "read_block_FileGz", "read_block_FileLz4"):
        rb = prog.body(BR + "::" + r)
        dr = [c for c in rb.live_calls() if c.d == BR + "::drop_block"]
        st = [c for c in rb.live_calls() if c.d.endswith("::store_block_in_storage")]
        ok = bool(dr) and bool(st) and any(d.bb in rb.reachable_after(s.bb) for d in dr for s in st)
        # in the decode loop
        inloop = any(any(d.bb in rb.loop_blocks(hh) for t, hh in rb.back_edges()) for d in dr)
        rep.examined(R172, BR + "::" + r, sample={"reader": r, "drop_block_after_store": ok, "inside_decode_loop": inloop})
        if not ok or not inloop:
            rep.violation(R172, BR + "::" + r, "%s does not drop the previously decoded block after storing a new one; a streamed file would be held in memory whole" % r)

    # ------------------------------------------------------------ R17.3
    R173 = rep.rule("R17.3", "every container that owns file data is emptied on the release path")
    structs = [BR, LR, SR]
    reach = prog.reachable_fns([SP + "::drop_data_try"])
    for st in structs:
        a = prog.facts.adts.get(st)
        if not a:
            raise CheckerError("anchor missing: " + st)
        for fl in a["variants"][0]["fields"]:
            t = fl["ty"]
            is_container = any(k in t for k in ("Map<", "Set<", "Vec<", "LruCache<", "LinkedList<", "VecDeque<"))
            owns = "std::sync::Arc<" in t
            if not (is_container and owns):
                continue
            removers = []
            for p_ in sorted(reach):
                bd = prog.body(p_, required=False)
                if bd is None or not p_.startswith(st + "::"):
                    continue
                for c in bd.live_calls():
                    if c.d.split("::")[-1] in ("remove", "pop", "pop_entry", "remove_entry", "clear", "pop_first", "pop_last", "retain") and c.args:
                        for o in bd.origins(c.args[0]):
                            if o[0] == "arg" and o[1] == 1 and fl["name"] in o[2]:
                                removers.append("%s:%s" % (p_.split("::")[-1], c.d.split("::")[-1]))
            inst = "%s.%s" % (st.split("::")[-1], fl["name"])
            rep.examined(R173, inst, sample={"container": inst, "type": t[:90], "released_by": sorted(set(removers))})
            if not removers:
                rep.violation(R173, inst, "%s (%s) owns file data but nothing reachable from drop_data_try ever removes entries from it; it grows with the file" % (inst, t[:80]))
    rep.floor(R173, 5)

    # (R17.5 "own container entries are removed before Arc::try_unwrap" was withdrawn: since failed releases
    #  are retried (R17.6, repair 7035ad44) a late removal only delays the release by one pass; the seeded
    #  change it was written for no longer breaks the property, so the rule would be a false alarm.)
    # ------------------------------------------------------------ R17.6 a failed release is retried
    # SyslineReader::drop_data picks its candidates by iterating self.syslines; drop_sysline takes the
    # candidate out of that index before Arc::try_unwrap.  If the unwrap fails (the message is still
    # queued for printing) and the item is not put back, no later pass sees it again: its lines and
    # blocks stay in the LineReader/BlockReader for the rest of the run (memory grows with the file
    # whenever printing lags, e.g. multi-block messages or a slow stdout).
    R176 = rep.rule("R17.6", "an item whose release failed stays in the index the release pass iterates")
    dd = prog.body(SR + "::drop_data")
    ds = prog.body(SR + "::drop_sysline")
    iter_fields = set()
    for c in dd.live_calls():
        if c.d.split("::")[-1] in ("iter", "keys", "values", "range", "iter_mut"):
            for o in dd.origins(c.args[0]):
                if o[0] == "arg" and o[1] == 1:
                    for f_ in o[2]:
                        if f_ not in ("*", "&"):
                            iter_fields.add(f_)
    # ... and the pass must look at the whole index: a walk that resumes above a remembered key
    # (range(self.<cursor>..)) never meets an item that was put back below the cursor
    partial = []
    for c in dd.live_calls():
        if c.d.split("::")[-1] in ("range", "range_mut", "split_off") and c.args and len(c.args) >= 2:
            if any(o[0] == "arg" and o[1] == 1 and any(f_ in o[2] for f_ in iter_fields) for o in dd.origins(c.args[0])):
                lo_from_self = False
                for o in dd.origins(c.args[1]):
                    if o[0] == "agg":
                        st_ = dd.stmts(o[1])[o[2]]
                        for op_ in st_[2][2]:
                            if op_[0] != "k" and any(x[0] == "arg" and x[1] == 1 for x in dd.origins(op_)):
                                lo_from_self = True
                    elif o[0] == "arg" and o[1] == 1:
                        lo_from_self = True
                if lo_from_self:
                    partial.append(c)
    rep.examined(R176, dd.path + "|whole-index", sample={"iterated_fields": sorted(iter_fields), "resumed_range_walks": [c.line for c in partial]})
    if partial:
        rep.violation(R176, dd.path + "|whole-index", "SyslineReader::drop_data walks self.%s from a remembered key (range(self.<cursor>..), line %d) instead of the whole index; a message that drop_sysline puts back after a failed "
                      "Arc::try_unwrap lies below that key and is never visited again, so its lines and blocks stay until exit" % (sorted(iter_fields)[0], partial[0].line))
    tus = [c for c in ds.live_calls() if c.d.split("::")[-1] == "try_unwrap" and "Arc" in c.d]
    rem = []
    for c in ds.live_calls():
        if c.d.split("::")[-1] in ("remove", "pop", "remove_entry") and c.args:
            for o in ds.origins(c.args[0]):
                if o[0] == "arg" and o[1] == 1 and any(f_ in o[2] for f_ in iter_fields):
                    rem.append((c, [f_ for f_ in iter_fields if f_ in o[2]][0]))
    if not tus or not rem:
        raise CheckerError("drop_sysline: try_unwrap (%d) / removal from the iterated index (%d) not recognised; drop_data iterates %s" % (len(tus), len(rem), sorted(iter_fields)))
    import c03 as _c03
    for tu in tus:
        swbb, arms_, oth_ = _c03.result_arms(ds, tu)
        err_t = arms_.get(1)
        for (rc, fld) in rem:
            if not ds.dominates(rc.bb, tu.bb):
                continue
            ins = [c for c in ds.live_calls() if c.d.split("::")[-1] in ("insert", "push", "push_back", "entry", "try_insert") and c.args and
                   any(o[0] == "arg" and o[1] == 1 and fld in o[2] for o in ds.origins(c.args[0]))]
            lost = err_t is not None and any(ds.term(x)[0] == "ret" for x in ds.reachable(err_t, set(c.bb for c in ins)))
            inst = "%s|%s" % (ds.path, fld)
            rep.examined(R176, inst, sample={"release_pass_iterates": sorted(iter_fields), "removed_before_test_line": rc.line, "reinserts": [c.line for c in ins], "failure_arm_can_return_without_reinsert": lost})
            if lost:
                rep.violation(R176, inst, "SyslineReader::drop_sysline: the message is removed from self.%s (line %d) before Arc::try_unwrap (line %d); when the unwrap fails it is not put back, and drop_data, which "
                              "iterates self.%s, never retries it: its lines and blocks are kept (3000 three-block messages, --blocksz 1024, slow stdout: blocks high 8664 of 8709)" % (fld, rc.line, tu.line, fld))

    # ------------------------------------------------------------ R17.7 lift of C11 R11.8
    import contextlib as _cl7, io as _io7
    import c11 as _c11
    from common import Report as _Rep7
    R177 = rep.rule("R17.7", "only year-less notations take the whole-file missing-year pass (from C11 R11.8)")
    _s11 = _Rep7("C11", "quick", dict(rep.meta))
    _s11.finish = lambda *a, **k: 0
    with _cl7.redirect_stdout(_io7.StringIO()):
        _c11.run(prog, _s11, "quick")
    for (rid_, key_, what_, det_) in _s11.violations:
        if rid_ == "R11.8":
            rep.violation(R177, key_.split("|", 1)[1], what_)
    for k_ in sorted(_s11.rules.get("R11.8", {}).get("keys", ())):
        rep.examined(R177, k_, sample={"rule": "R11.8", "instance": k_})
    rep.floor("R17.7", 3)

    # ------------------------------------------------------------ R17.9 one search per call, and the storing search only for streamed files
    # Nothing is released *inside* a call of find_sysline_between_datetime_filters: the release pass runs
    # in the worker between calls.  The dispatcher therefore (a) runs its search once per call - a loop
    # that looks at message after message inside one call stores all of them - and (b) uses the
    # sequential search, which stores every message it walks over, only where nothing else is possible
    # (streamed files); plain files are searched by bisection (lift of C03 R3.3).
    import c03 as _c03_17
    R179 = rep.rule("R17.9", "the window search of the streaming stage runs once per call and bisects plain files (R3.3)")
    fb17 = prog.body("s4lib::readers::syslinereader::SyslineReader::find_sysline_between_datetime_filters")
    searches17 = [c for c in fb17.live_calls() if "find_sysline_at_datetime_filter" in c.d]
    if not searches17:
        raise CheckerError("R17.9: find_sysline_between_datetime_filters calls no datetime search")
    loops17 = [h_ for (s_, h_) in fb17.back_edges()]
    for c in searches17:
        inl_ = [h_ for h_ in loops17 if c.bb in fb17.loop_blocks(h_) or c.bb == h_]
        rep.examined(R179, "%s|%s" % (fb17.path, c.d.split("::")[-1]), sample={"search": c.d.split("::")[-1], "line": c.line, "inside_a_loop": bool(inl_)})
        if inl_:
            rep.violation(R179, "%s|search-in-loop" % fb17.path, "find_sysline_between_datetime_filters runs %s (line %d) inside a loop: one call can then walk over - and store - an unbounded number of messages (on a sorted log with --dt-before, "
                          "the whole remainder of the file) before the worker gets to release anything; lines/syslines high grow with the file" % (c.d.split("::")[-1], c.line))
    _s3_17 = _Rep7("C03", "quick", dict(rep.meta))
    _s3_17.finish = lambda *a, **k: 0
    try:
        with _cl7.redirect_stdout(_io7.StringIO()):
            _c03_17.run(prog, _s3_17, "quick")
    except CheckerError:
        pass    # C03 reports its own lost anchors; what it decided before is used
    for (rid_, key_, what_, det_) in _s3_17.violations:
        if rid_ == "R3.3":
            rep.violation(R179, key_.split("|", 1)[1] + "|R3.3", what_)
    for k_ in sorted(_s3_17.rules.get("R3.3", {}).get("keys", ())):
        rep.examined(R179, "R3.3|" + k_, sample={"rule": "R3.3", "instance": k_})

    # ------------------------------------------------------------ R17.4 every block can be released
    # For a plain file nothing but LineReader::drop_line hands blocks to BlockReader::drop_block (the
    # look-behind drop exists only in the decoders).  drop_line releases the blocks of a line's parts
    # up to a bound; if that bound can never reach the number of parts, the block holding a line's last
    # part is only released through a *later* line that begins in it - so a block in which no line
    # continues into the next one (lines ending exactly on the block end) is never released and memory
    # grows with the file.  Necessary condition: some definition of the bound equals the full part count.
    R174 = rep.rule("R17.4", "drop_line can release the block of a line's last part (blocks with no straddling line are releasable)")
    dl = prog.body(LR + "::drop_line")
    dbs = [c for c in dl.live_calls() if c.d == BR + "::drop_block"]
    takes = [c for c in dl.live_calls() if (c.o or c.d).endswith("Iterator::take") or c.d.endswith("::take")]
    lens = [c for c in dl.live_calls() if c.d.endswith("Vec::<T, A>::len") or c.d.endswith("::len")]
    if not dbs:
        raise CheckerError("LineReader::drop_line: no BlockReader::drop_block call")
    callers = sorted(p for p, cs in prog.callgraph().items() if BR + "::drop_block" in cs)
    text_reach = prog.reachable_fns(["s4::exec_syslogprocessor"])
    plain_callers = [p for p in callers if "read_block_File" not in p and p in text_reach]
    full = None
    bound_defs = []
    if takes:
        tk = takes[0]
        n_op = tk.args[1]
        nl = op_local(n_op)
        # follow copies to the named bound variable
        seen = set()
        work = [nl]
        while work:
            l = work.pop()
            if l in seen or l is None:
                continue
            seen.add(l)
            for d in dl.defs.get(l, []):
                if d[1] == "call":
                    bound_defs.append(("call", d[2].d.split("::")[-1]))
                    continue
                rv = d[2]
                if rv[0] == "use" and rv[1][0] != "k":
                    src = rv[1][1][0]
                    # a copy of the part count itself?
                    if any(src == c.dest[0] for c in lens):
                        bound_defs.append(("len",))
                    else:
                        work.append(src)
                elif rv[0] == "use":
                    bound_defs.append(("const", rv[1][2]))
                elif rv[0] == "bin":
                    bound_defs.append((rv[1], dl.eval_int(rv[3])))
                else:
                    bound_defs.append((rv[0],))
        full = any(d == ("len",) or (d[0] in ("Add", "Sub") and d[1] == 0) for d in bound_defs)
    else:
        # no take(): every part's block is released - provided the releases happen in a loop over the parts
        full = True
    # a line may span any number of blocks: the release has to iterate over the line's parts.  A fixed
    # number of drop_block calls (first and last block) leaves the middle blocks of a long line behind.
    part_loops = []
    for (_tl, h_) in dl.back_edges():
        lb_ = dl.loop_blocks(h_)
        if any(c.bb in lb_ and c.o.endswith("Iterator::next") and "LinePart" in (c.callee.get("self") or "") for c in dl.live_calls()):
            part_loops.append(lb_)
    outside = [c.line for c in dbs if not any(c.bb in lb_ for lb_ in part_loops)]
    inside = [c.line for c in dbs if any(c.bb in lb_ for lb_ in part_loops)]
    rep.examined(R174, dl.path + "|per-part", sample={"loops_over_the_line_parts": len(part_loops), "drop_block_calls_inside": len(inside), "drop_block_calls_outside": len(outside)})
    if not inside:
        rep.violation(R174, dl.path + "|per-part", "LineReader::drop_line releases blocks with %d drop_block call(s) outside any loop over the line's parts; a line that spans three or more blocks keeps its middle blocks forever "
                      "(nothing else releases a plain file's blocks), so 'blocks high' grows with the number of long messages" % len(outside))
    rep.examined(R174, dl.path + "|bound", sample={"callers_of_drop_block": callers, "callers_outside_the_decoders": plain_callers, "definitions_of_the_bound": [list(map(str, d)) for d in bound_defs], "can_equal_part_count": full})
    if plain_callers != [LR + "::drop_line"]:
        rep.info("drop_block is also called from %s; R17.4's premise (drop_line is the only releaser for plain files) should be re-read" % [p for p in plain_callers if p != LR + "::drop_line"])
    elif not full:
        rep.violation(R174, dl.path + "|bound", "LineReader::drop_line releases at most all-but-the-last part's block of a line (bound definitions: %s) and is the only caller of drop_block for plain files; "
                      "a block in which every line ends at or before the block's last byte (e.g. fixed 64-byte lines with --blocksz 1024) is never released: blocks high = blocks total" % [list(map(str, d)) for d in bound_defs])

    # ------------------------------------------------------------ R17.8 "the line ends on the last byte of its block" is asked of the exclusive end
    # drop_line releases the block of a line's last part only when the line ends exactly at the block's
    # end: (one-past-the-end offset) % blocksz == 0.  The code base has both conventions
    # (Line::fileoffset_end is inclusive, LinePart::fileoffset_end is exclusive); the constant added before
    # the remainder has to complement the convention of the function that supplies the end, decided by
    # reading that function's own return expression (`.. - 1` = inclusive).
    R178 = rep.rule("R17.8", "the block-end test of drop_line adds 1 to an inclusive end and nothing to an exclusive end")
    n178 = 0
    for bb in sorted(dl.live):
        for st in dl.stmts(bb):
            if not (st[0] == "=" and st[2][0] == "bin" and st[2][1].startswith("Rem")):
                continue
            if dl.shape(st[2][3]) != ("call", "blocksz"):
                continue
            sh = dl.shape(st[2][2])
            add_c, endcall = None, None
            if sh[0] == "call":
                add_c, endcall = 0, st[2][2]
            elif sh[0] in ("Add", "Sub") and sh[1][0] == "call" and sh[2][0] == "k" and isinstance(sh[2][1], int):
                add_c = sh[2][1] if sh[0] == "Add" else -sh[2][1]
                # the call operand
                d_ = dl.defs.get(op_local(st[2][2]), [])
                while len(d_) == 1 and d_[0][1] != "call" and d_[0][2][0] in ("use", "cast"):
                    d_ = dl.defs.get(op_local(d_[0][2][1] if d_[0][2][0] == "use" else d_[0][2][2]), [])
                if len(d_) == 1 and d_[0][1] != "call" and d_[0][2][0] == "bin":
                    endcall = d_[0][2][2]
            if endcall is None:
                continue
            cd_ = dl.defs.get(op_local(endcall), [])
            while len(cd_) == 1 and cd_[0][1] != "call" and cd_[0][2][0] in ("use", "cast"):
                cd_ = dl.defs.get(op_local(cd_[0][2][1] if cd_[0][2][0] == "use" else cd_[0][2][2]), [])
            if len(cd_) != 1 or cd_[0][1] != "call":
                continue
            callee = cd_[0][2].d
            fb_ = prog.body(callee, required=False)
            if fb_ is None:
                raise CheckerError("R17.8: body of %s not available" % callee)
            rs = fb_.shape(["cp", [0]])
            if rs[0] == "Sub" and rs[2] == ("k", 1):
                conv = "inclusive"
            elif rs[0] == "Add" and rs[2] != ("k", 1) or rs[0] in ("place", "call"):
                conv = "exclusive-or-opaque"
            else:
                conv = "unknown"
            n178 += 1
            ok_ = (conv == "inclusive" and add_c == 1) or (conv == "exclusive-or-opaque" and rs[0] == "Add" and add_c == 0)
            decided = conv == "inclusive" or (conv == "exclusive-or-opaque" and rs[0] == "Add")
            rep.examined(R178, "%s|block-end-test" % dl.path, sample={"end_supplied_by": callee.split("::")[-2] + "::" + callee.split("::")[-1], "its_return_expression": str(rs)[:80], "convention": conv, "constant_added": add_c, "decided": decided})
            if decided and not ok_:
                rep.violation(R178, "%s|block-end-test|off-by-one" % dl.path, "LineReader::drop_line tests (%s() %+d) %% blocksz == 0, but %s returns the %s end (%s): a line that really ends on the last byte of its block is not recognised, "
                              "its block is never released, and a plain file leaks one block per such boundary (blocks high grows with the file)" % (
                                  callee.split("::")[-1], add_c, callee.split("::")[-2] + "::" + callee.split("::")[-1], "exclusive" if conv != "inclusive" else "inclusive", str(rs)[:60]))
    if n178 == 0:
        raise CheckerError("R17.8: no `end % blocksz` test found in LineReader::drop_line")

    return rep.finish(
        "Static necessary-condition check that the release path exists and runs: every way round the streaming loop after sending a non-last "
        "message releases the previous message and re-arms; the seven-level drop chain is a live call chain and each level removes from its own "
        "container; drop_lines releases every line; the drop switches are constant true; the streamed decoders drop the previous block inside "
        "their decode loop. The bound itself and run-time Arc counts are not decided.",
        ["the actual memory bound", "Arc reference counts at run time (depends on how far the printing thread lags: channel capacity vs the two-block margin)",
         "the logarithmic term of the binary search"])
