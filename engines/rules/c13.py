"""C13 — prepended fields, separators and colour are pure decoration.

Decides:
  R13.1 write-sequence conformance of every print variant selected by the four dispatchers: with
        the variant's (file, date) flags taken from the dispatcher arm (or its flag parameters),
        per printed line every message-byte sink is preceded by the file field when the file flag is
        set and by the date field when the date flag is set, file is written before date, and a
        field is absent when its flag is clear.
  R13.2 all four datetime_to_string_* compute dt().with_timezone(&self.prepend_date_offset)
        .format(&self.prepend_date_format).
  R13.3 all four message arms of processing_loop write the separator after the print call, guarded
        by the same non-empty flag.
  R13.4 alignment width is the maximum display width over the sources that have a pending message.
  R13.5 colour escape bytes come only from termcolor set_color/reset, and only in variants
        dispatched with colour on.
  R13.6 evtx and journal message buffers end with a newline on every path (the decorated variants
        only print newline-terminated pieces, so otherwise they would drop the tail that the
        undecorated variants print).
  R13.7 where a line is printed in pieces around the highlighted datetime, consecutive pieces are
        contiguous sub-slices of the same line ([..a][a..b][b..]): no byte lost or repeated.
Does not decide: exact escape bytes, unicode width of exotic names, strftime rendering.
"""
import decide
from mir import CheckerError, op_local

PR = "s4lib::printer::printers::PrinterLogMessage::"
PL = "s4::processing_loop"
TH = ("::as_bytes", "::as_ref", "::unwrap", "::deref", "::as_slice", "::index", "::as_str", "::borrow", "::as_mut_slice", "Deref>::deref", "::clone")
KINDS = ["sysline", "fixedstruct", "evtx", "journalentry"]


def classify(b, op):
    res = set()
    for o in b.origins(op, through_calls=TH):
        if o[0] == "arg":
            if o[1] == 1:
                pj = [p for p in o[2] if p not in ("*", "&")]
                res.add("self." + (pj[0] if pj else "?"))
            else:
                res.add("arg%d" % o[1])
        elif o[0] == "call":
            res.add("call:" + o[2].split("::")[-1])
        elif o[0] == "const":
            res.add("const")
        else:
            res.add(o[0])
    return res


def sinks_of(prog, b):
    """(bb, class) for every content sink; class in F, D, M"""
    res = []
    for c in b.live_calls():
        n = c.d.split("::")[-1]
        if n in ("extend_from_slice", "write_all", "write") and len(c.args) >= 2 and ("Vec" in c.d or "Write" in c.o or "io::" in c.d):
            cl = classify(b, c.args[1])
            if "self.prepend_file" in cl:
                res.append((c.bb, "F"))
            elif any(x.startswith("call:datetime_to_string") for x in cl):
                res.append((c.bb, "D"))
            elif cl <= {"self.buffer"}:
                continue
            elif cl <= {"const"}:
                res.append((c.bb, "K"))
            else:
                res.append((c.bb, "M"))
        elif c.d == PR + "print_line":
            res.append((c.bb, "M"))
    return res


def flag_succ(b, flags):
    """successor lists with switches on flag parameters resolved: flags = {argn: bool}"""
    succ = [list(x) for x in b.succ]
    for bb in b.live:
        t = b.term(bb)
        if t[0] != "switch":
            continue
        r = decide.root_of(b, t[1])
        if r is not None and r[0] == "arg" and len(r) == 2 and r[1] in flags and (len(t) > 4 and t[4] == "bool"):
            want = flags[r[1]]
            arms = {int(v): tb for v, tb in t[2]}
            if want:
                tgt = arms.get(1, t[3]) if 1 in arms else t[3]
            else:
                tgt = arms.get(0, t[3])
            succ[bb] = [tgt]
    return succ


def reach(succ, starts, removed=()):
    removed = set(removed)
    seen = set()
    st = [s for s in starts if s not in removed]
    seen.update(st)
    while st:
        x = st.pop()
        for y in succ[x]:
            if y not in seen and y not in removed:
                seen.add(y)
                st.append(y)
    return seen


def loops_of(b, succ):
    """header -> loop blocks under a (restricted) successor relation"""
    live = reach(succ, [0])
    pred = {x: [] for x in live}
    for x in live:
        for y in succ[x]:
            if y in live:
                pred[y].append(x)

    def dom(a, x):
        return a == x or x not in reach(succ, [0], {a})
    res = {}
    for x in live:
        for y in succ[x]:
            if y in live and dom(y, x):
                body = res.setdefault(y, {y})
                st = [x]
                while st:
                    z = st.pop()
                    if z not in body:
                        body.add(z)
                        st.extend(pred[z])
    return res


def check_variant(prog, rep, rid, b, fflag, dflag, flags, label):
    """fflag/dflag: expected booleans; flags: {argn: bool} to resolve parameter switches"""
    succ = flag_succ(b, flags)
    live = reach(succ, [0])
    sk = [(bb, k) for (bb, k) in sinks_of(prog, b) if bb in live]
    F = set(bb for bb, k in sk if k == "F")
    D = set(bb for bb, k in sk if k == "D")
    M = set(bb for bb, k in sk if k == "M")
    inst = "%s|%s" % (b.path, label)
    rep.examined(rid, inst, sample={"variant": b.path.split("::")[-1], "flags(file,date)": [fflag, dflag], "F_sinks": len(F), "D_sinks": len(D), "M_sinks": len(M)})
    if not M:
        raise CheckerError("%s: no message-byte sink found" % b.path)
    name = b.path.split("::")[-1]
    # absence
    # (a prefix whose slice is the empty constant when the flag is off is harmless: only sinks
    #  reachable with the flag resolved count)
    if not fflag and F:
        # tolerated when the written slice is provably the empty constant under this flag valuation:
        # param variants build `prepend_file = match flag {true => .., false => &[]}`; the sink itself must be guarded
        rep.violation(rid, inst + "|file-absent", "%s [%s]: the file-name field is written although the variant is selected with prepend-file off" % (name, label))
    if not dflag and D:
        rep.violation(rid, inst + "|date-absent", "%s [%s]: the datetime field is written although the variant is selected with prepend-date off" % (name, label))
    if fflag and not F:
        rep.violation(rid, inst + "|file-missing", "%s [%s]: selected with prepend-file on but never writes the file-name field" % (name, label))
    if dflag and not D:
        rep.violation(rid, inst + "|date-missing", "%s [%s]: selected with prepend-date on but never writes the datetime field" % (name, label))
    loops = loops_of(b, succ)

    def outer_loop_header(bb):
        best = None
        for h, body in loops.items():
            if bb in body:
                if best is None or len(body) > len(loops[best]):
                    best = h
        return best

    def line_starts(bb):
        h = outer_loop_header(bb)
        if h is None:
            return [0], set()
        return list(succ[h]), {h}

    for m in sorted(M):
        starts, hdr = line_starts(m)
        if fflag and F and m in reach(succ, starts, F | hdr):
            rep.violation(rid, inst + "|file-per-line", "%s [%s]: message bytes (bb%d, line %s) can be written on a line without the file-name field before them" % (name, label, m, b.blocks[m].get("l")))
        if dflag and D and m in reach(succ, starts, D | hdr):
            rep.violation(rid, inst + "|date-per-line", "%s [%s]: message bytes (bb%d, line %s) can be written on a line without the datetime field before them" % (name, label, m, b.blocks[m].get("l")))
    if fflag and dflag and F and D:
        for d in sorted(D):
            starts, hdr = line_starts(d)
            if d in reach(succ, starts, F | hdr):
                rep.violation(rid, inst + "|order", "%s [%s]: the datetime field (line %s) is written before the file-name field; every other variant writes file then datetime" % (name, label, b.blocks[d].get("l")))
                break
        # and no F after D within the same line
        for d in sorted(D):
            h = outer_loop_header(d)
            stop = M | ({h} if h is not None else set())
            after = reach(succ, succ[d], stop)
            if F & after:
                rep.violation(rid, inst + "|order", "%s [%s]: the file-name field can be written after the datetime field on the same line" % (name, label))
                break


def dispatcher_table(prog, b):
    """(color, file, date) -> (callee path, call) from the dispatcher's match"""
    def end_of(bb):
        t = b.term(bb)
        if t[0] == "call" and t[1].get("d", "").startswith(PR + "print_"):
            return t[1]["d"]
        if t[0] == "ret":
            return "ret"
        return None
    res = {}
    for p in decide.enumerate_paths(b, 0, end_of):
        if p.end == "ret":
            continue
        fl = {}
        for d in p.decisions:
            if d[0] == "flag":
                root = d[1]
                if root[0] == "arg" and root[1] == 1:
                    fl[root[-1]] = d[2]
        call = [c for c in b.calls if c.bb == p.blocks[-1]][0]
        combos = [(c_, f_, d_) for c_ in (False, True) for f_ in (False, True) for d_ in (False, True)
                  if fl.get("do_color", c_) == c_ and fl.get("do_prepend_file", f_) == f_ and fl.get("do_prepend_date", d_) == d_]
        for k in combos:
            res.setdefault(k, set()).add((p.end, call.bb))
    return res


def run(prog, rep, tier):
    R131 = rep.rule("R13.1", "write-sequence conformance of every print variant against its dispatcher flags")
    R132 = rep.rule("R13.2", "datetime field = dt().with_timezone(prepend_date_offset).format(prepend_date_format) for all kinds")
    R133 = rep.rule("R13.3", "separator written after each print in all four message arms")
    R134 = rep.rule("R13.4", "alignment width over sources with a pending message")
    R135 = rep.rule("R13.5", "colour bytes only via termcolor, only in colour variants")

    # ------------------------------------------------------------ R13.1 / R13.5
    seen_variants = set()
    for kind in KINDS:
        db = prog.body(PR + "print_" + kind)
        table = dispatcher_table(prog, db)
        if len(table) != 8:
            raise CheckerError("%s: dispatcher table has %d of 8 flag combinations" % (db.path, len(table)))
        for (c_, f_, d_), targets in sorted(table.items()):
            inst = "%s|(%s,%s,%s)" % (db.path, c_, f_, d_)
            if len(targets) != 1:
                rep.violation(R131, inst, "%s: flags (color=%s,file=%s,date=%s) reach %d different variants" % (db.path, c_, f_, d_, len(targets)))
                continue
            callee, cbb = next(iter(targets))
            vb = prog.body(callee)
            call = [c for c in db.calls if c.bb == cbb][0]
            flags = {}
            # flag parameters: bool args beyond (self, message[, buffer])
            for i, a in enumerate(call.args):
                aty = (call.callee.get("aty") or [""] * len(call.args))[i]
                if aty == "bool":
                    roots = set()
                    for o in db.origins(a):
                        if o[0] == "arg" and o[1] == 1:
                            roots.add(o[2][-1] if o[2] else "?")
                        elif o[0] == "const":
                            roots.add("const:" + o[1])
                    pname = vb.local_name(i + 1) or ""
                    want = None
                    if roots == {"do_prepend_file"}:
                        flags[i + 1] = f_
                        want = "file"
                    elif roots == {"do_prepend_date"}:
                        flags[i + 1] = d_
                        want = "date"
                    elif roots == {"do_color"}:
                        flags[i + 1] = c_
                        want = "color"
                    else:
                        rep.violation(R131, inst + "|flag-arg", "%s: flag argument %d of %s does not come from one of the printer's own flags (%s)" % (db.path, i + 1, callee.split("::")[-1], sorted(roots)))
                        continue
                    # parameter role by name of the callee's parameter (declared role)
                    role = "file" if "file" in pname else ("date" if "date" in pname else ("color" if "color" in pname else None))
                    if role and role != want:
                        rep.violation(R131, inst + "|flag-arg", "%s: passes its %s flag as %s's '%s' parameter" % (db.path, want, callee.split("::")[-1], pname))
            label = "color=%s,file=%s,date=%s" % (c_, f_, d_)
            check_variant(prog, rep, R131, vb, f_, d_, flags, label)
            seen_variants.add(callee)
            # R13.5
            succ = flag_succ(vb, flags)
            live = reach(succ, [0])
            colorcalls = [c for c in vb.calls if c.bb in live and (c.o.endswith("WriteColor::set_color") or c.o.endswith("WriteColor::reset"))]
            rep.examined(R135, "%s|%s" % (callee, label), sample={"variant": callee.split("::")[-1], "color_flag": c_, "termcolor_calls": len(colorcalls)})
            if c_ and not colorcalls:
                rep.violation(R135, "%s|no-colour" % callee, "%s: selected with colour on but never sets a colour" % callee.split("::")[-1])
            if not c_ and colorcalls:
                rep.violation(R135, "%s|colour-when-off" % callee, "%s: selected with colour off but emits colour changes" % callee.split("::")[-1])
    rep.floor(R131, 32)
    rep.exhaustive.append("R13.1: all 8 flag combinations of all 4 dispatchers, each variant under every flag valuation that reaches it")
    # literal escape bytes in any sink of the printer module
    for p in sorted(prog.facts.bodies):
        if p.startswith(PR) and "{closure" not in p:
            b = prog.body(p)
            for c in b.live_calls():
                for a in c.args:
                    if a[0] == "k" and isinstance(a[2], str) and "\x1b" in a[2]:
                        rep.violation(R135, p + "|literal-escape", "%s: a literal escape sequence is written" % p)

    # ------------------------------------------------------------ R13.2
    for kind in KINDS:
        p = PR + "datetime_to_string_" + kind
        b = prog.body(p)
        wt = [c for c in b.live_calls() if c.d.endswith("::with_timezone")]
        fm = [c for c in b.live_calls() if c.d.split("::")[-1].startswith("format") and "chrono" in c.d]
        dts = [c for c in b.live_calls() if c.d.endswith("::dt")]
        ok = True
        why = []
        if len(wt) != 1 or len(fm) != 1 or len(dts) < 1:
            ok = False
            why.append("shape (with_timezone=%d, format=%d, dt=%d)" % (len(wt), len(fm), len(dts)))
        else:
            zo = classify(b, wt[0].args[1])
            fo = classify(b, fm[0].args[1])
            ro = b.origins(wt[0].args[0], through_calls=TH)
            rf = b.origins(fm[0].args[0], through_calls=TH)
            if zo != {"self.prepend_date_offset"}:
                ok = False
                why.append("zone argument derives from %s" % sorted(zo))
            if fo != {"self.prepend_date_format"}:
                ok = False
                why.append("format argument derives from %s" % sorted(fo))
            if not all(x[0] == "call" and x[2].endswith("::dt") for x in ro):
                ok = False
                why.append("with_timezone is not applied to the message's dt()")
            if not all(x[0] == "call" and x[2].endswith("::with_timezone") for x in rf):
                ok = False
                why.append("format is not applied to the zone-converted instant")
            # the dt() receiver is the message argument
            for dc in dts:
                src = classify(b, dc.args[0])
                if not (src <= {"arg2"}):
                    ok = False
                    why.append("dt() is taken from %s" % sorted(src))
        # the returned text is this call's own rendering, nothing remembered from an earlier message
        ro_ = b.origins(["cp", [0]], through_calls=("::to_string", "ToString>::to_string", "::into", "::clone"))
        fresh = ("String::with_capacity", "String::new")
        foreign = [x for x in ro_ if not (x[0] == "call" and (x[2].split("::")[-1].startswith("format") or x[2].endswith("::to_string") or x[2].endswith("fmt::format") or any(x[2].endswith(f_) for f_ in fresh)))]
        stored = [c for c in b.live_calls() if False]
        writes_self = any(st[0] == "=" and st[1][0] == 1 and len(st[1]) > 1 for bb_ in b.live for st in b.stmts(bb_))
        if foreign or len(ro_) != 1:
            ok = False
            why.append("the returned string can come from %s, not only from formatting this message's instant" % sorted(set("%s:%s" % (x[0], x[2] if x[0] == "call" else (x[2] if len(x) > 2 else "")) for x in (foreign or ro_)))[:3])
        rep.examined(R132, p, sample={"fn": p.split("::")[-1], "ok": ok, "why": why})
        if not ok:
            rep.violation(R132, p, "%s: %s" % (p.split("::")[-1], "; ".join(why)))

    # ------------------------------------------------------------ R13.3
    b = prog.body(PL)
    prints = {c.d.split("::")[-1]: c for c in b.live_calls() if c.d.startswith(PR + "print_")}
    if len(prints) != 4:
        raise CheckerError("processing_loop: %d print calls" % len(prints))
    ws = [c for c in b.live_calls() if c.d.endswith("printers::write_stdout")]
    hdrs = set(h for _, h in b.back_edges())
    shapes = {}
    regions = {n: b.reachable_after(x.bb, hdrs) for n, x in prints.items()}
    for name, pc in sorted(prints.items()):
        # write_stdout calls reachable after this print within the same loop iteration and not after another print
        region = set(regions[name])
        for n2, r2 in regions.items():
            if n2 != name:
                region -= r2
        mine = [w for w in ws if w.bb in region]
        seps = []
        from c08 import var_of
        for w in mine:
            cl = set()
            for o in b.origins(w.args[0], through_calls=TH):
                if o[0] == "arg":
                    cl.add("param:" + (b.local_name(o[1]) or str(o[1])))
                elif o[0] == "const":
                    cl.add("const")
                else:
                    cl.add(o[0])
            guard = None
            chain = []
            for bb in sorted(b.live):
                t = b.term(bb)
                if t[0] == "switch" and len(t) > 4 and t[4] == "bool":
                    arms = {int(v): tb for v, tb in t[2]}
                    true_t = t[3] if 0 in arms else arms.get(1)
                    false_t = arms.get(0) if 0 in arms else t[3]
                    if true_t is not None and true_t != bb and b.pred[true_t] == [bb] and b.dominates(true_t, w.bb) and bb in regions[name]:
                        v = var_of(b, t[1])
                        if v is not None:
                            guard = b.local_name(v)
                        chain.append((b.local_name(v) if v is not None else None) or "<condition>")
                    elif false_t is not None and false_t != bb and false_t != true_t and b.pred[false_t] == [bb] and b.dominates(false_t, w.bb) and bb in regions[name] and bb != pc.bb \
                            and b.dominates(pc.target, bb):
                        v = var_of(b, t[1])
                        chain.append("not " + ((b.local_name(v) if v is not None else None) or "<condition>"))
            seps.append((sorted(cl), guard, sorted(chain)))
        shapes[name] = sorted(map(str, seps))
        # the separator follows *every* message: after the print call no path reaches the next
        # iteration without passing the test of the separator flag, and from its true arm none
        # without passing the write
        sepw = [w for w in mine if any(o[0] == "arg" and (b.local_name(o[1]) or "") == "log_message_separator" for o in b.origins(w.args[0], through_calls=TH))]
        for w in sepw:
            gbb = None
            for bb in sorted(regions[name]):
                t = b.term(bb)
                if t[0] == "switch" and len(t) > 4 and t[4] == "bool":
                    arms = {int(v): tb for v, tb in t[2]}
                    true_t = t[3] if 0 in arms else arms.get(1)
                    v = var_of(b, t[1])
                    if true_t is not None and v is not None and b.local_name(v) == "sepb_print" and b.dominates(true_t, w.bb):
                        gbb = (bb, true_t)
            if gbb is None:
                continue
            skip_test = sorted(h for h in hdrs if h in b.reachable(pc.target, {gbb[0]}) and gbb[0] != pc.target)
            skip_write = sorted(h for h in hdrs if h in b.reachable(gbb[1], {w.bb}) and gbb[1] != w.bb)
            rep.examined(R133, "%s|%s|every-message" % (PL, name), sample={"arm": name, "flag_test_block": gbb[0], "ways_past_the_flag_test": skip_test, "ways_past_the_write": skip_write})
            if skip_test or skip_write:
                rep.violation(R133, "%s|separator|%s|not-every-message" % (PL, name), "processing_loop: after %s some path reaches the next message without %s; the separator is then missing after some messages "
                              "(e.g. after the last message of a file that does not end in a newline) while the other kinds of message always get it" % (
                                  name, "testing the separator flag" if skip_test else "writing the separator although the flag is set"))
        rep.examined(R133, "%s|%s" % (PL, name), sample={"arm": name, "writes_after_print": seps})
    sep_shapes = {}
    for name, sh in shapes.items():
        sep = [s for s in sh if "separator" in s]
        sep_shapes[name] = sep
    vals = list(sep_shapes.values())
    if not all(v for v in vals):
        missing = [n for n, v in sep_shapes.items() if not v]
        # identify by provenance: separator bytes come from the log_message_separator parameter
        rep.violation(R133, PL + "|separator|" + ",".join(missing), "processing_loop: the message separator is not written after %s" % missing)
    elif len(set(map(tuple, vals))) != 1:
        rep.violation(R133, PL + "|separator|shape", "processing_loop: the four message arms write the separator under different conditions: %s" % sep_shapes)

    # ------------------------------------------------------------ R13.4
    widths = [c for c in b.live_calls() if c.o.endswith("UnicodeWidthStr::width")]
    if not widths:
        raise CheckerError("processing_loop: no display-width computation found")
    loops = {}
    for (tl, h) in b.back_edges():
        loops[h] = b.loop_blocks(h)
    pending_item = "(s4lib::data::common::LogMessage, bool)"
    for w in widths:
        # innermost loop containing the width call
        inner = None
        for h, body in loops.items():
            if w.bb in body and (inner is None or len(body) < len(loops[inner])):
                inner = h
        if inner is None:
            rep.violation(R134, "%s|width@%d" % (PL, w.line), "processing_loop: display width is not computed in a loop over sources")
            continue
        nexts = [c for c in b.live_calls() if c.bb in loops[inner] and c.o.endswith("Iterator::next")]
        tys = [c.callee.get("self") or "" for c in nexts]
        inst = "%s|width-loop" % PL
        ok = False
        detail = tys
        for c in nexts:
            st = c.callee.get("self") or ""
            if st.startswith("std::collections::hash_set::Iter<") or st.startswith("std::collections::btree_set::Iter<"):
                # the set being iterated
                sets = set()
                for x in b.origins(c.args[0], through_calls=("::iter", "::into_iter", "::deref")):
                    if x[0] == "local":
                        sets.add(x[1])
                    elif x[0] == "call":
                        sets.add(b.term(x[1])[3][0])
                # all inserts into that set take their key from an iteration over the pending map
                good = bool(sets)
                for sl in sets:
                    ins = [q for q in b.live_calls() if q.d.endswith("::insert") and "Set" in q.d and any(
                        (x[0] == "local" and x[1] == sl) or (x[0] == "call" and b.term(x[1])[3][0] == sl) for x in b.origins(q.args[0]))]
                    if not ins:
                        good = False
                    for q in ins:
                        ko = b.origins(q.args[1])
                        if not all(x[0] == "call" and x[2].endswith("::next") and pending_item in (([z for z in b.calls if z.bb == x[1]][0].callee.get("self")) or "") for x in ko):
                            good = False
                ok = ok or good
            elif pending_item in st and ("btree_map::Iter" in st or "btree_map::Keys" in st):
                ok = True
        rep.examined(R134, "%s@%d" % (inst, w.line), sample={"width_call_line": w.line, "loop_iterates": tys, "over_pending_sources": ok})
        if not ok:
            rep.violation(R134, inst, "processing_loop: the alignment width (line %d) is computed over %s, not over the sources that have a pending message; a silent or filtered-out file with a long name would widen every line" % (
                w.line, [t.split("<")[0] for t in tys]))

    # R13.4b: the alignment width is measured in display columns; padding must use the same measure
    #         (width minus the name's display width), never width minus a byte length
    lens = set()
    for c in b.live_calls():
        if c.d.endswith("str::<impl str>::len") or c.d.endswith("String::len"):
            lens.add(c.dest[0])
    wv = set()
    for w in widths:
        wv.add(w.dest[0])
    from c05 import forward_taint as _ft
    lt = _ft(b, lens)
    wt = _ft(b, wv)
    # width flows through max() calls
    changed = True
    while changed:
        n0 = len(wt)
        for c in b.live_calls():
            if c.dest[0] not in wt and c.d.split("::")[-1] in ("max", "min", "saturating_sub", "checked_sub", "wrapping_sub") and any(a[0] in ("cp", "mv") and a[1][0] in wt for a in c.args):
                wt.add(c.dest[0])
        wt = _ft(b, wt)
        changed = len(wt) != n0
    mixed = []
    for bb in sorted(b.live):
        for st in b.stmts(bb):
            if st[0] == "=" and st[2][0] == "bin" and st[2][1].startswith("Sub"):
                ops = (st[2][2], st[2][3])
                if any(o[0] in ("cp", "mv") and o[1][0] in wt for o in ops) and any(o[0] in ("cp", "mv") and o[1][0] in lt for o in ops):
                    mixed.append(b.blocks[bb].get("l"))
    for c in b.live_calls():
        if c.d.split("::")[-1] in ("saturating_sub", "checked_sub", "wrapping_sub") and any(a[0] in ("cp", "mv") and a[1][0] in wt for a in c.args) and any(a[0] in ("cp", "mv") and a[1][0] in lt for a in c.args):
            mixed.append(c.line)
    # the formatter's own `{:<width$}` pads by char count, a third measure: a column count must not become a fmt width
    fmtw = []
    for c in b.live_calls():
        if c.d.split("::")[-1] == "from_usize" and "fmt::rt::Argument" in c.d and c.args:
            hit = c.args[0][0] in ("cp", "mv") and c.args[0][1][0] in wt
            for o_ in b.origins(c.args[0]):
                if o_[0] in ("local", "arg") and o_[1] in wt:
                    hit = True
                if o_[0] == "call" and any(z.bb == o_[1] and z.dest and z.dest[0] in wt for z in b.calls):
                    hit = True
            if hit:
                fmtw.append(c.line)
    rep.examined(R134, PL + "|padding-by-formatter", sample={"display_width_used_as_fmt_width_at_lines": fmtw, "display_width_calls": len(widths)})
    if fmtw:
        rep.violation(R134, PL + "|padding-by-formatter", "processing_loop (line %s): the alignment width is measured in display columns (unicode_width) but handed to the formatter as `{:<width$}`, which pads by char count; "
                      "names with wide (CJK) characters are over-padded and names with zero-width characters under-padded, so the prepended fields do not line up" % fmtw[0])
    rep.examined(R134, PL + "|padding-measure", sample={"byte_length_results": len(lens), "width_minus_byte_length_sites": mixed})
    if mixed:
        rep.violation(R134, PL + "|padding-measure", "processing_loop: padding is computed as display width minus a byte length (line %s); names with multi-byte characters are under-padded, so aligned prefixes differ in width" % mixed[0])

    # ------------------------------------------------------------ R13.6
    R136 = rep.rule("R13.6", "evtx/journal message buffers end with a newline (decorated variants print whole newline-terminated pieces only)")
    from c08 import var_of as _var_of
    from c16 import const_of as _const_of

    def last_appends(b_, call, buf):
        """the appending calls on `buf` that can be the last one before `call` (backward over the CFG)"""
        APP = ("push", "push_str", "extend_from_slice", "extend", "push_char", "write_all", "append", "insert_str")
        res = []
        seen = set()
        stack = [(call.bb, True)]
        while stack:
            bb, first = stack.pop()
            if (bb, first) in seen:
                continue
            seen.add((bb, first))
            t = b_.term(bb)
            hit = None
            if not first and t[0] == "call" and t[1].get("d", "").split("::")[-1] in APP and t[2]:
                recv = set()
                for o in b_.origins(t[2][0]):
                    if o[0] == "local":
                        recv.add(o[1])
                    elif o[0] == "call":
                        recv.add(b_.term(o[1])[3][0])
                if buf in recv or _var_of(b_, t[2][0]) == buf:
                    hit = (bb, t[1]["d"].split("::")[-1], _const_of(b_, t[2][1]) if len(t[2]) > 1 else None)
            if hit:
                res.append(hit)
                continue
            for p_ in b_.pred[bb]:
                if p_ in b_.live:
                    stack.append((p_, False))
        return res

    JR_ = "s4lib::readers::journalreader::JournalReader::"
    for fn in ("next_short", "next_export", "next_verbose", "next_cat"):
        rb = prog.body(JR_ + fn)
        ctors = [c for c in rb.live_calls() if c.d.startswith("s4lib::data::journal::JournalEntry::") and c.d.split("::")[-1] in ("new", "new_with_date", "from_vec", "from_vec_nodt", "from_buffer")]
        if not ctors:
            raise CheckerError("%s: no JournalEntry constructor call" % fn)
        for c in ctors:
            buf = _var_of(rb, c.args[0])
            if buf is None:
                raise CheckerError("%s: buffer given to the JournalEntry constructor is not a variable" % fn)
            la = last_appends(rb, c, buf)
            bad = [x for x in la if not ((isinstance(x[2], int) and x[2] == 10) or (isinstance(x[2], str) and x[2].endswith("\n")))]
            rep.examined(R136, JR_ + fn, sample={"renderer": fn, "possible_last_appends": [(x[1], x[2] if not isinstance(x[2], str) else x[2][-8:]) for x in la][:6]})
            if not la or bad:
                rep.violation(R136, JR_ + fn, "%s: the entry text handed to JournalEntry may not end with a newline (last append %s); the prepend/colour variants print only newline-terminated pieces, so the tail would be printed undecorated-only" % (
                    fn, [(x[1], x[2]) for x in (bad or la)][:2]))
    eb_ = prog.body("s4lib::data::evtx::Evtx::from_evtxrs")
    okn = False
    for bb in sorted(eb_.live):
        for st in eb_.stmts(bb):
            if st[0] == "=" and st[2][0] == "agg" and isinstance(st[2][1], dict) and st[2][1].get("adt", "").endswith("evtx::Evtx"):
                names = st[2][1]["fields"]
                if "data" in names:
                    for o in eb_.origins(st[2][2][names.index("data")]):
                        if o[0] == "call" and o[2].endswith("::add"):
                            ac = [z for z in eb_.calls if z.bb == o[1]][0]
                            v_ = _const_of(eb_, ac.args[1])
                            okn = isinstance(v_, str) and v_.endswith("\n")
    rep.examined(R136, eb_.path, sample={"data_is_record_text_plus_newline": okn})
    if not okn:
        rep.violation(R136, eb_.path, "Evtx::from_evtxrs: the record text is not terminated with a newline; the prepend/colour variants print only newline-terminated pieces")

    # ------------------------------------------------------------ R13.7
    R137 = rep.rule("R13.7", "highlighted sub-slices partition their line: consecutive pieces are contiguous")
    import slices as _sl
    nchains = 0
    for p in sorted(prog.facts.bodies):
        if not p.startswith(PR + "print_") or "{closure" in p:
            continue
        pb_ = prog.body(p)
        for lines_, problems in _sl.partition_chains(pb_):
            nchains += 1
            rep.examined(R137, "%s|chain@%s" % (p, len(lines_)), sample={"variant": p.split("::")[-1], "pieces_at_lines": lines_, "problems": problems})
            if problems:
                rep.violation(R137, "%s|pieces|%d" % (p, len(lines_)), "%s: %s; removing the colour escapes would not give back the line's bytes" % (p.split("::")[-1], problems[0]))
    rep.floor(R137, 12, "(colour variants slicing their line around the datetime)")

    # ------------------------------------------------------------ R13.11 the -d format is rendered once before it is accepted
    # chrono's `DateTime::format` is lazy: an invalid specifier or a trailing '%' surfaces only when the
    # value is written, as a fmt::Error - and `to_string()` turns that into a panic in the printing
    # thread.  The option parser must therefore write a formatted value and reject the option on error.
    R1311 = rep.rule("R13.11", "--prepend-dt-format is validated by rendering a datetime with it")
    vf = prog.body("s4::cli_parser_prepend_dt_format")
    fcalls = [c for c in vf.live_calls() if c.d.endswith("DateTime::<Tz>::format") or c.d.split("::")[-1] == "format" and "chrono" in c.d]
    rendered = False
    for c in vf.live_calls():
        last = (c.o or c.d).split("::")[-1]
        if last in ("write_fmt", "write_str", "to_string", "fmt", "format") and c.d != (fcalls[0].d if fcalls else ""):
            # its result is tested and one arm returns Err
            if c.target is not None:
                for sw in sorted(vf.reachable(c.target)):
                    t_ = vf.term(sw)
                    if t_[0] == "switch" and any(x[0] == "call" and x[1] == c.bb for x in vf.origins(t_[1], through_calls=("::is_err", "::is_ok", "::not"))):
                        rendered = True
    rep.examined(R1311, vf.path, sample={"format_calls": len(fcalls), "a_rendering_result_is_tested": rendered})
    if not fcalls:
        raise CheckerError("cli_parser_prepend_dt_format: no chrono format call")
    if not rendered:
        rep.violation(R1311, vf.path, "cli_parser_prepend_dt_format builds the lazy chrono formatter but never writes it; `-d '%H%'` or `-d '%Q'` is accepted and the first utmp/evtx/journal message panics in to_string() "
                      "('a Display implementation returned an error'), text messages get an empty datetime field")

    # ------------------------------------------------------------ R13.9 one separator, literal in both fields
    # The same --prepend-separator text follows the file-name field and the datetime field.  The file
    # field is built with format!() (text is literal there); the datetime field is a strftime format,
    # so the separator must be escaped ('%' -> '%%') exactly there and nowhere else:
    #  (a) cli_process_args returns the option value itself (no rewriting before it is shared),
    #  (b) processing_loop uses the parameter directly for the file field,
    #  (c) and appends it to the datetime format only through replace('%', "%%").
    R139 = rep.rule("R13.9", "the prepend separator reaches the file field verbatim and the datetime format with '%' escaped")
    ca = prog.body("s4::cli_process_args")
    direct = False
    rewritten = []
    for bb in sorted(ca.live):
        for s_ in ca.stmts(bb):
            if s_[0] == "=" and s_[1] == [0] and s_[2][0] == "agg":
                for o_ in s_[2][2]:
                    if o_[0] == "k":
                        continue
                    for x in ca.origins(o_):
                        if x[0] in ("arg", "local", "call") and "prepend_separator" in str(x):
                            if x[0] == "call" and not (x[2].endswith("Parser::parse") and "prepend_separator" in str(x[-1])):
                                rewritten.append(x[2].split("::")[-1])
                            else:
                                direct = True
    # any call result that is computed from the option and returned instead of it
    for c_ in ca.live_calls():
        if c_.args and any("prepend_separator" in str(x) for a in c_.args if a[0] != "k" for x in ca.origins(a)) and (c_.o or c_.d).split("::")[-1] in ("replace", "replacen", "trim", "to_uppercase", "to_lowercase", "escape_default", "repeat"):
            rewritten.append((c_.o or c_.d).split("::")[-1])
    rep.examined(R139, ca.path + "|returned", sample={"option_value_returned_directly": direct, "rewrites_of_the_option": rewritten})
    if not direct or rewritten:
        rep.violation(R139, ca.path + "|returned", "cli_process_args: the --prepend-separator value is rewritten (%s) before it is shared by the file-name field and the datetime field; "
                      "the file field then shows the rewritten text (e.g. '%%%%' for '%%') while the datetime field shows the original" % (rewritten or "not returned directly"))
    pl_ = prog.body("s4::processing_loop")
    sep_l = [i_ for i_, l_ in enumerate(pl_.locals) if l_.get("name") == "cli_prepend_separator"]
    if len(sep_l) != 1:
        raise CheckerError("processing_loop: parameter cli_prepend_separator not found")
    sl = sep_l[0]
    esc = []
    raw_fmt = 0
    raw_add = []
    for c_ in pl_.live_calls():
        nm = (c_.o or c_.d)
        last = nm.split("::")[-1]
        if last == "replace" and c_.args and any(x[0] == "arg" and x[1] == sl or (x[0] == "local" and x[1] == sl) for x in pl_.origins(c_.args[0], through_calls=("::deref", "::as_str"))):
            ks = [a[2] for a in c_.args[1:] if a[0] == "k"] + [x[1] for a in c_.args[1:] if a[0] != "k" for x in pl_.origins(a) if x[0] == "const"]
            if any(str(k_).strip("'\"") == "%" for k_ in ks) and any(str(k_).strip("'\"") == "%%" for k_ in ks):
                esc.append(c_)
        if last in ("new_display", "new_debug") and c_.args and any((x[0] in ("arg", "local")) and x[1] == sl for x in pl_.origins(c_.args[0])):
            raw_fmt += 1
        if (last == "add" or last == "push_str") and len(c_.args) >= 2:
            os_ = pl_.origins(c_.args[1], through_calls=("::deref", "::as_str"))
            if any((x[0] in ("arg", "local")) and x[1] == sl for x in os_):
                raw_add.append(c_)
    rep.examined(R139, pl_.path + "|uses", sample={"file_field_format_arguments": raw_fmt, "escaped_for_the_datetime_format": [c_.line for c_ in esc], "appended_unescaped": [c_.line for c_ in raw_add]})
    if raw_fmt < 1:
        raise CheckerError("processing_loop: the separator is not a format!() argument of the file field (idiom not recognised)")
    if raw_add or not esc:
        rep.violation(R139, pl_.path + "|datetime-format", "processing_loop: the separator is appended to the strftime format of the datetime field without escaping '%%' (line %s); "
                      "`--prepend-separator '%%d|'` then prints a different separator after the datetime than after the file name, and a lone '%%' makes utmp/evtx/journal output panic" % (raw_add[0].line if raw_add else "?"))

    # ------------------------------------------------------------ R13.10 lift of C02 R2.4
    import contextlib as _cl2, io as _io2
    import c02 as _c02
    from common import Report as _Rep2
    R1310 = rep.rule("R13.10", "fields and message text reach stdout in program order: no direct write overtakes buffered bytes (from C02 R2.4)")
    _s2 = _Rep2("C02", "quick", dict(rep.meta))
    _s2.finish = lambda *a, **k: 0
    with _cl2.redirect_stdout(_io2.StringIO()):
        _c02.run(prog, _s2, "quick")
    for (rid_, key_, what_, det_) in _s2.violations:
        if rid_ == "R2.4":
            rep.violation(R1310, key_.split("|", 1)[1], what_)
    for k_ in sorted(_s2.rules.get("R2.4", {}).get("keys", ()))[:40]:
        rep.examined(R1310, k_, sample={"rule": "R2.4", "instance": k_})
    rep.floor("R13.10", 10)

    # ------------------------------------------------------------ R13.8 datetime highlight decided for every ordering
    import highlight
    R138 = rep.rule("R13.8", "for every ordering of part and datetime bounds the pieces tile the part and the datetime colour covers exactly the datetime")
    nh = 0
    for hb in prog.bodies():
        if "printer::printers" not in hb.path or "{closure" in hb.path:
            continue
        r_ = highlight.analyse(hb)
        if r_ is None:
            continue
        nh += 1
        n_ord, probs, info = r_
        rep.examined(R138, hb.path, sample={"fn": hb.path.split("::")[-1], "orderings_enumerated": n_ord, "pieces": len(info["pieces"]), "comparisons": info["comparisons"], "problems": len(probs)})
        rep.exhaustive.append({"domain": "weak orderings of (at, at_end, dt_beg, dt_end) with at<at_end, dt_beg<=dt_end", "size": n_ord, "where": hb.path.split("::")[-1]}) if hasattr(rep, "exhaustive") else None
        if probs:
            d0, w0 = probs[0]
            rep.violation(R138, hb.path + "|highlight", "%s: with the indexes ordered %s, %s (%d of %d orderings affected); which bytes carry the datetime colour then depends on where a block boundary falls inside the line" % (
                hb.path.split("::")[-1], d0, w0, len(set(p[0] for p in probs)), n_ord))
    if nh < 4:
        raise CheckerError("R13.8: only %d highlight loops recognised (4 on the pinned tree)" % nh)

    # ------------------------------------------------------------ R13.12 decorated printers write out everything they batch
    # Every (colour, file, date) variant batches its fields in the printer's private buffer; a variant
    # that reports Ok with bytes left behind loses the tail of its output (and delays the rest), so
    # the decorated output minus the decoration is no longer the undecorated output.  Same analysis as C01 R1.7.
    import printflush as _pf
    R1312 = rep.rule("R13.12", "every printer variant returns Ok only with its private buffer written out (C01 R1.7 analysis)")
    _pf.check(prog, rep, R1312, floor=24)

    # ------------------------------------------------------------ R13.13 decorated multi-line messages are cut into pieces that keep every byte
    # The prepend printers of evtx/journal messages write the message line by line, each line behind
    # its own file/date fields.  The pieces have to be sub-slices of the message that together are the
    # message.  An iterator that strips terminators (`lines()` also strips '\r'; `split`, `fields`,
    # `words`, `trim*`) hands out pieces that are not: empty lines, carriage returns or blanks of the
    # stored text would be missing from the decorated output only.
    R1313 = rep.rule("R13.13", "the decorated evtx/journal printers cut the message with index ranges, never with a terminator-stripping iterator")
    STRIP = ("Lines", "LinesWithTerminator?", "Split", "SplitN", "SplitReverse", "Fields", "FieldsWith", "Words", "SplitWhitespace", "SplitTerminator", "SplitAsciiWhitespace", "RSplit", "Graphemes")
    n1313 = 0
    for p_ in sorted(prog.facts.bodies):
        if not p_.startswith(PR + "print_") or "{closure" in p_ or not ("evtx" in p_ or "journal" in p_) or "prepend" not in p_:
            continue
        pb_ = prog.body(p_)
        n1313 += 1
        bad_ = []
        cuts_ = 0
        for c in pb_.live_calls():
            nm_ = (c.o or c.d).split("::")[-1]
            st_ = (c.callee.get("self") or "")
            base_ = st_.split("<")[0].split("::")[-1]
            if c.o.endswith("Iterator::next") and base_ in STRIP:
                bad_.append((base_ + "::next", c.line))
            if nm_ in ("trim", "trim_end", "trim_start", "trim_with", "trim_end_with", "trim_start_with", "strip_suffix", "strip_prefix", "trim_ascii", "trim_ascii_end") and ("[u8]" in st_ or "str" in st_ or "ByteSlice" in c.o):
                bad_.append((nm_, c.line))
            if nm_ == "find_byte" or (nm_ == "index" and "Range" in str(c.callee.get("ga"))):
                cuts_ += 1
        rep.examined(R1313, p_, sample={"printer": p_.split("::")[-1], "index_cuts": cuts_, "terminator_stripping_calls": bad_})
        if bad_:
            rep.violation(R1313, p_ + "|stripping-iterator", "%s (line %d) takes the pieces of the message from %s, which drops bytes of the stored text (line terminators incl. '\\r', and with the usual empty-piece test whole empty lines); "
                          "the decorated output minus its decoration is then not the undecorated output" % (p_.split("::")[-1], bad_[0][1], bad_[0][0]))
    if n1313 < 4:
        raise CheckerError("R13.13: only %d decorated evtx/journal printers found" % n1313)

    # ------------------------------------------------------------ R13.14 the requested zone of the datetime field is the zone that was asked for
    # "...the datetime field is the message's instant in the ... requested zone": -z/-u/-l go through
    # the same offset parser as --tz-offset; its structural rules (ambiguous names rejected, the sign
    # reaches every term of a hand-written offset) are lifted from C14 R14.4/R14.8.
    import contextlib as _c13, io as _i13
    import c14 as _c14b
    from common import Report as _R13
    R1314 = rep.rule("R13.14", "the --prepend-tz value resolves to the offset it denotes (from C14 R14.4, R14.8)")
    _s14b = _R13("C14", "quick", dict(rep.meta))
    _s14b.finish = lambda *a, **k: 0
    with _c13.redirect_stdout(_i13.StringIO()):
        _c14b.run(prog, _s14b, "quick")
    n1314 = 0
    for (rid_, key_, what_, det_) in _s14b.violations:
        if rid_ in ("R14.4", "R14.8"):
            rep.violation(R1314, key_.split("|", 1)[1] + "|" + rid_, what_)
    for rid_ in ("R14.4", "R14.8"):
        for k_ in sorted(_s14b.rules.get(rid_, {}).get("keys", ())):
            n1314 += 1
            rep.examined(R1314, "%s|%s" % (rid_, k_), sample={"rule": rid_, "instance": k_})
    if n1314 < 2:
        raise CheckerError("R13.14: only %d lifted C14 instances" % n1314)

    # ------------------------------------------------------------ R13.15 every piece cut from a multi-line message is written
    # The decorated evtx/journal printers cut the message at each newline and write every piece behind
    # its own prefix.  From the point where a piece is cut no path may go round the loop without
    # writing it - except through a test that provably cannot hold (`piece.is_empty()` for a piece cut
    # as `data[a .. a + b + CHARSZ]`, which is never empty).  A length test such as `len() <= CHARSZ`
    # drops the message's empty lines from the decorated output only (and from no line count).
    import slices as _sl15
    R1315 = rep.rule("R13.15", "in the decorated evtx/journal printers no piece of the message goes unwritten (dead emptiness tests excepted)")
    n1315 = 0
    for p_ in sorted(prog.facts.bodies):
        if not p_.startswith(PR + "print_") or "{closure" in p_ or not ("evtx" in p_ or "journal" in p_) or "prepend" not in p_:
            continue
        pb_ = prog.body(p_)
        pieces = []
        for (c, _base, st_, en_) in _sl15.index_calls(pb_):
            in_loop = [h for (_t, h) in pb_.back_edges() if c.bb in pb_.loop_blocks(h)]
            if in_loop and st_ is not None and en_ is not None:
                pieces.append((c, st_, en_, min(in_loop, key=lambda h: len(pb_.loop_blocks(h)))))
        all_idx = _sl15.index_calls(pb_)

        def _derived(c0):
            d_ = {c0.bb}
            grew_ = True
            while grew_:
                grew_ = False
                for (x, _b, _s, _e) in all_idx:
                    if x.bb not in d_ and any(o_[0] == "call" and o_[1] in d_ for o_ in pb_.origins(x.args[0], through_calls=("::deref", "::as_ref"))):
                        d_.add(x.bb)
                        grew_ = True
            return d_
        top = []
        for c, st_, en_, hdr in pieces:
            if not any(c.bb in _derived(c2) and c2 is not c for c2, _s, _e, _h in pieces):
                top.append((c, st_, en_, hdr))
        for c, st_, en_, hdr in top:
            n1315 += 1
            der_ = _derived(c)
            writes = set()
            for w in pb_.live_calls():
                if w.d.split("::")[-1] in ("extend_from_slice", "write_all", "write") and len(w.args) > 1:
                    if any(o_[0] == "call" and o_[1] in der_ for o_ in pb_.origins(w.args[1], through_calls=("::deref", "::as_ref"))):
                        writes.add(w.bb)
            # provably non-empty: end = (start + x) + k with k >= 1
            def _has_const_ge1(sig_):
                if sig_[0] == "k":
                    return isinstance(sig_[1], int) and sig_[1] >= 1
                if sig_[0] == "Add":
                    return _has_const_ge1(sig_[1]) or _has_const_ge1(sig_[2])
                return False

            def _mentions(sig_, v_):
                if sig_ == v_:
                    return True
                return sig_[0] == "Add" and (_mentions(sig_[1], v_) or _mentions(sig_[2], v_))
            nonempty = en_[0] == "Add" and _has_const_ge1(en_) and _mentions(en_, st_)
            dead = set()
            if nonempty:
                for e in pb_.live_calls():
                    if e.d.split("::")[-1] == "is_empty" and e.args and e.target is not None and any(o_[0] == "call" and o_[1] == c.bb for o_ in pb_.origins(e.args[0], through_calls=("::deref", "::as_ref"))):
                        t = pb_.term(e.target)
                        if t[0] == "switch":
                            arms = {int(v_): tb_ for v_, tb_ in t[2]}
                            tt = t[3] if 0 in arms else arms.get(1)
                            if tt is not None and pb_.pred[tt] == [e.target]:
                                dead.add(tt)
            around = hdr in pb_.reachable(c.target if c.target is not None else c.bb, writes | dead)
            rep.examined(R1315, "%s|piece@bb%d" % (p_, c.bb), sample={"printer": p_.split("::")[-1], "line": c.line, "writes_of_the_piece": len(writes), "piece_provably_non_empty": nonempty, "dead_emptiness_arms": len(dead), "way_round_without_writing": around})
            if not writes:
                continue
            if around:
                rep.violation(R1315, "%s|piece|skipped" % p_, "%s (line %d): after a piece of the message is cut there is a way round the loop that does not write it and is not provably dead; "
                              "empty lines inside an evtx/journal message are then missing from the decorated output while the undecorated and the colour printers print them, and the summary still counts them" % (p_.split("::")[-1], c.line))
    if n1315 < 4:
        raise CheckerError("R13.15: only %d pieces found in the decorated printers" % n1315)

    # ------------------------------------------------------------ R13.17 the zone of the datetime field never comes from --tz-offset
    # cli_process_args returns two zones: the one zone-less log timestamps are *read* in (--tz-offset) and
    # the one the prepended datetime is *printed* in (-u / -l / -z, default: the local zone).  The options
    # are documented as independent; the printed zone must not derive from the clap field of --tz-offset
    # (with `-d FMT -t +09:00` and no -u/-l/-z the field would silently switch to +09:00).
    R1317 = rep.rule("R13.17", "the zone the datetime field is printed in does not derive from the --tz-offset option")
    ca17 = prog.body("s4::cli_process_args")
    rets17 = [st for bb in sorted(ca17.live) for st in ca17.stmts(bb) if st[0] == "=" and st[1] == [0] and st[2][0] == "agg" and st[2][1] == "tuple"]
    if len(rets17) != 1:
        raise CheckerError("R13.17: cli_process_args builds its result tuple at %d places" % len(rets17))
    zones17 = []
    for i_, o_ in enumerate(rets17[0][2][2]):
        if o_[0] == "k" or "FixedOffset" not in (ca17.local_ty(o_[1][0]) or "") or "Option" in (ca17.local_ty(o_[1][0]) or ""):
            continue
        flds_ = set()
        for x_ in ca17.origins(o_):
            if x_[0] == "call" and x_[2].endswith("Parser::parse"):
                flds_.add(next((p_ for p_ in reversed(x_[3]) if p_ not in ("*", "&") and not p_.startswith("as ") and not p_.isdigit()), "?"))
            elif x_[0] == "call":
                flds_.add("<" + x_[2].split("::")[-1] + ">")
            else:
                flds_.add("<" + x_[0] + ">")
        zones17.append((i_, flds_))
    rep.examined(R1317, ca17.path + "|zones", sample={"zone_elements_of_the_result": [(i_, sorted(f_)) for i_, f_ in zones17]})
    read17 = [z_ for z_ in zones17 if z_[1] == {"tz_offset"}]
    if len(zones17) != 2 or len(read17) != 1:
        raise CheckerError("R13.17: expected two FixedOffset results of cli_process_args, one of them exactly args.tz_offset; found %s" % [(i_, sorted(f_)) for i_, f_ in zones17])
    for (i_, flds_) in zones17:
        if (i_, flds_) is read17[0] or flds_ == {"tz_offset"}:
            continue
        if "tz_offset" in flds_:
            rep.violation(R1317, ca17.path + "|prepend-zone|from-tz-offset", "cli_process_args: the zone in which the prepended datetime is printed (result element %d) can take the value of --tz-offset (derived from clap fields %s); "
                          "the two options are independent: without -u/-l/-z the field is printed in the local zone, whatever zone the log lines are read in" % (i_, sorted(flds_)))

    # ------------------------------------------------------------ R13.18 the escape letters of --separator denote the characters C gives them
    # "--separator adds only the requested bytes": the option's value goes through a hand-written escape
    # table (`\\n`, `\\t`, `\\f`, ...).  The table is read from the MIR (a switch over the character after
    # the backslash whose arms return a constant char): it must be injective - two letters with one value
    # means one of them is not what the user asked for - and every letter that is a C escape
    # (0 a b e f n r t v \\) must have C's value.
    R1318 = rep.rule("R13.18", "the escape table of --separator is injective and agrees with the C escapes")
    CESC = {"0": 0x00, "a": 0x07, "b": 0x08, "e": 0x1B, "f": 0x0C, "n": 0x0A, "r": 0x0D, "t": 0x09, "v": 0x0B, "\\": 0x5C, "'": 0x27, '"': 0x22, "?": 0x3F}
    tabs18 = []
    for p_ in prog.facts.bodies:
        if not p_.startswith("<s4::unescape::") and not p_.startswith("s4::unescape::"):
            continue
        ub_ = prog.body(p_)
        for bb in sorted(ub_.live):
            t_ = ub_.term(bb)
            if t_[0] != "switch" or len(t_) < 5 or t_[4] != "char" or len(t_[2]) < 4:
                continue
            tab_ = {}
            for v_, tb_ in t_[2]:
                for st in ub_.stmts(tb_):
                    if st[0] == "=" and st[1] == [0] and st[2][0] == "agg" and isinstance(st[2][1], dict) and st[2][1].get("variant") == "Ok" and st[2][2] and st[2][2][0][0] == "k" and st[2][2][0][1] == "char":
                        tab_[chr(int(v_))] = ord(st[2][2][0][2]) if isinstance(st[2][2][0][2], str) and len(st[2][2][0][2]) == 1 else st[2][2][0][2]
            if len(tab_) >= 4:
                tabs18.append((p_, tab_))
    if len(tabs18) != 1:
        raise CheckerError("R13.18: %d escape tables found in mod unescape" % len(tabs18))
    p18, tab18 = tabs18[0]
    rep.examined(R1318, p18 + "|table", sample={"letters": {k_: ("0x%02X" % v_ if isinstance(v_, int) else v_) for k_, v_ in sorted(tab18.items())}})
    inv18 = {}
    for k_, v_ in tab18.items():
        inv18.setdefault(v_, []).append(k_)
    for v_, ks_ in sorted(inv18.items(), key=str):
        if len(ks_) > 1:
            rep.violation(R1318, "unescape|same-value|%s" % "+".join(sorted(ks_)), "the escape table of --separator gives the letters %s the same character (%s); one of them is not the character the user asked for, "
                          "so removing the requested separator from the output no longer leaves the undecorated messages" % (sorted("\\" + k_ for k_ in ks_), "0x%02X" % v_ if isinstance(v_, int) else v_))
    for k_, v_ in sorted(tab18.items()):
        if k_ in CESC and isinstance(v_, int) and v_ != CESC[k_]:
            rep.violation(R1318, "unescape|not-c-value|%s" % k_, "the escape table of --separator turns '\\%s' into 0x%02X; the C escape it is documented as is 0x%02X" % (k_, v_, CESC[k_]))

    # ------------------------------------------------------------ R13.16 no two same-typed arguments change places on the way to the callee
    # The options reach the workers and the printers as long positional argument lists in which several
    # parameters share a type (two FixedOffsets: the zone log lines are read in, the zone datetimes are
    # printed in).  The compiler cannot tell them apart; the names can: a caller variable named like
    # parameter B passed for parameter A *and* vice versa is an exchange.  Exact cross-overs only.
    import argswap as _as_R1316
    R1316 = rep.rule("R13.16", "the prepend zone and format reach the printers under their own parameter (no exchanged same-typed arguments)")
    sw_R1316 = _as_R1316.scan(prog)
    for x_ in sw_R1316:
        rep.examined(R1316, "%s->%s@%s" % (x_["caller"], x_["callee"], x_["line"]), sample=({k_: x_[k_] for k_ in ("caller", "callee", "same_typed_parameter_pairs", "swapped")} if x_["swapped"] or "processing_loop" in x_["callee"] else None))
        for (i_, j_, a_, b_, t_) in x_["swapped"]:
            if not ("FixedOffset" in t_ or "String" in t_ or "bool" in t_):
                continue
            rep.violation(R1316, "%s->%s|%s<->%s" % (x_["caller"], x_["callee"], a_, b_), "%s (line %s) calls %s with its `%s` in the place of parameter `%s` and its `%s` in the place of `%s` (both %s): the datetime field is then rendered in the zone meant for reading log lines (or another option takes the value of its neighbour)"
                          % (x_["caller"], x_["line"], x_["callee"].split("::")[-1], b_, a_, a_, b_, t_))
    if len(sw_R1316) < 50:
        raise CheckerError("R13.16: only %d calls with same-typed parameter pairs found" % len(sw_R1316))

    return rep.finish(
        "Static necessary-condition check of the decoration path: for all 8 flag combinations of all 4 dispatchers the selected variant writes, "
        "per printed line, the file field then the date field before any message bytes exactly when the flags say so (must-pass-through on the "
        "MIR CFG with flag parameters resolved); the four datetime helpers apply prepend offset and format to the message's dt(); the separator "
        "is written after every kind of message under the same condition; alignment width ranges over sources with a pending message; colour "
        "changes come only from termcolor calls in colour variants.",
        ["exact escape bytes", "unicode width of exotic names", "strftime rendering", "that the undecorated variants emit all message bytes (C02)"])
