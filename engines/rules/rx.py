"""Bridge to the rxtab regular-language analyser (engines/rxtab)."""
import json
import os
import subprocess

from facts import ENGINE
from mir import CheckerError

BIN = os.path.join(ENGINE, "rxtab", "target", "release", "rxtab")


def analyze(patterns, limit=4000):
    if not os.path.isfile(BIN):
        r = subprocess.run(["cargo", "build", "--offline", "--release"], cwd=os.path.join(ENGINE, "rxtab"),
                           stdout=subprocess.PIPE, stderr=subprocess.STDOUT, text=True, env=dict(os.environ, CARGO_NET_OFFLINE="true"))
        if r.returncode != 0 or not os.path.isfile(BIN):
            raise CheckerError("cannot build rxtab: %s" % r.stdout[-400:])
    inp = json.dumps({"patterns": patterns, "limit": limit})
    r = subprocess.run([BIN], input=inp, stdout=subprocess.PIPE, stderr=subprocess.PIPE, text=True)
    if r.returncode != 0:
        raise CheckerError("rxtab failed: %s" % r.stderr[-400:])
    return json.loads(r.stdout)["results"]


def shadow(patterns, window=1000):
    """for each row j: index of an earlier row that finds a match in every line row j matches (else None)"""
    _ = analyze([])  # make sure the binary exists
    inp = json.dumps({"shadow": patterns, "window": window})
    r = subprocess.run([BIN], input=inp, stdout=subprocess.PIPE, stderr=subprocess.PIPE, text=True)
    if r.returncode != 0:
        raise CheckerError("rxtab shadow failed: %s" % r.stderr[-400:])
    return json.loads(r.stdout)
