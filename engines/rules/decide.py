"""Decision-path enumeration over MIR: classify every branch condition of a (small, or
loop-free region of a) body as a comparison atom / Option-shape atom, enumerate paths, and
evaluate them against a finite abstract domain (orderings x Option shapes).

This is enumeration of a finite abstract domain over the CFG, not a solver call.  Anything
not recognised makes the caller fail closed (CheckerError)."""
import itertools

from mir import CheckerError, op_local

CMP_CALLS = {
    "::lt": "lt", "::le": "le", "::gt": "gt", "::ge": "ge", "::eq": "eq", "::ne": "ne",
}
CMP_BIN = {"Lt": "lt", "Le": "le", "Gt": "gt", "Ge": "ge", "Eq": "eq", "Ne": "ne"}
NEG = {"lt": "ge", "le": "gt", "gt": "le", "ge": "lt", "eq": "ne", "ne": "eq"}
TRUTH = {
    "lt": {"<"}, "le": {"<", "="}, "gt": {">"}, "ge": {">", "="}, "eq": {"="}, "ne": {"<", ">"},
}
FLIP_REL = {"<": ">", "=": "=", ">": "<"}

THROUGH = ("::deref", "Clone>::clone", "::as_ref", "::borrow", "::unwrap", "::clone")


def root_of(body, op, through=THROUGH):
    """canonical single root of an operand or None; refs/derefs are transparent"""
    o = body.origins(op, through_calls=through)
    if len(o) != 1:
        # a variable with several definitions (e.g. an Option built as None or Some): the
        # variable itself is the root
        if op[0] in ("cp", "mv"):
            from mir import _proj_key
            pl = op[1]
            return ("local", pl[0]) + tuple(k for k in (_proj_key(e) for e in pl[1:]) if k not in ("*", "&"))
        return None
    r = next(iter(o))
    return canon_root(body, r)


def canon_root(body, r):
    kind = r[0]
    proj = tuple(p for p in r[-1] if p not in ("*", "&")) if isinstance(r[-1], tuple) else ()
    if kind == "arg":
        return ("arg", r[1]) + proj
    if kind == "call":
        return ("call", r[2].split("::")[-1], r[1]) + proj
    if kind == "const":
        return ("const", r[1])
    if kind == "local":
        return ("local", r[1]) + proj
    return (kind,) + tuple(str(x) for x in r[1:-1]) + proj


def is_partial_cmp_call(c):
    d = c.o or c.d
    if "PartialOrd" in (c.callee.get("trait") or "") or "PartialEq" in (c.callee.get("trait") or ""):
        for suf, name in CMP_CALLS.items():
            if d.endswith(suf):
                return name
    return None


def bool_atom(body, op, depth=0):
    """atom for a bool operand: ('cmp', op, A, B) | ('variant_is', root, name, truth) | None"""
    if depth > 6:
        return None
    l = op_local(op)
    if l is None:
        return None
    defs = body.defs.get(l, [])
    if len(defs) != 1:
        return None
    bb, idx, rv = defs[0]
    if idx == "call":
        c = rv
        name = is_partial_cmp_call(c)
        if name:
            a = root_of(body, c.args[0])
            b = root_of(body, c.args[1])
            if a is None or b is None:
                return None
            return ("cmp", name, a, b)
        d = c.d
        if d.endswith("Option::<T>::is_none") or d.endswith("Option::<T>::is_some"):
            r = root_of(body, c.args[0])
            if r is None:
                return None
            return ("is", r, "None" if d.endswith("is_none") else "Some")
        return None
    k = rv[0]
    if k == "bin" and rv[1] in CMP_BIN:
        a = root_of(body, rv[2])
        b = root_of(body, rv[3])
        if a is None or b is None:
            return None
        return ("cmp", CMP_BIN[rv[1]], a, b)
    if k == "un" and rv[1] == "Not":
        a = bool_atom(body, rv[2], depth + 1)
        if a and a[0] == "cmp":
            return ("cmp", NEG[a[1]], a[2], a[3])
        return None
    if k == "use":
        return bool_atom(body, rv[1], depth + 1)
    return None


def switch_decisions(body, bb):
    """For a switch block: list of (target_bb, decision) where decision is a hashable
    (atom..., outcome). Returns None when the condition is not recognised."""
    t = body.term(bb)
    assert t[0] == "switch"
    discr = body._const_discr(bb, t[1])
    arms, otherwise = t[2], t[3]
    l = op_local(discr)
    if l is None:
        if discr[0] in ("cp", "mv") and len(t) > 4 and t[4] == "bool":
            r = root_of(body, discr)
            if r is not None and r[0] in ("arg", "local", "call"):
                atom = ("flag", r)
                res = [(b, atom + (bool(int(v)),)) for v, b in arms]
                vals = [int(v) for v, _ in arms]
                if len(vals) == 1:
                    res.append((otherwise, atom + (not bool(vals[0]),)))
                return res
        return None
    # discriminant(place) ?
    place = None
    for s in body.stmts(bb):
        if s[0] == "=" and s[1] == [l] and s[2][0] == "discr":
            place = s[2][1]
    if place is None:
        ds = body.defs.get(l, [])
        if len(ds) == 1 and ds[0][1] != "call" and ds[0][2][0] == "discr":
            place = ds[0][2][1]
    if place is not None:
        r = root_of(body, ["cp", place])
        if r is None:
            return None
        ty = body.local_ty(place[0]) if len(place) == 1 else None
        res = []
        listed = []
        for v, b in arms:
            listed.append(int(v))
            res.append((b, ("variant", r, int(v))))
        res.append((otherwise, ("variant_not", r, tuple(listed))))
        return res
    atom = bool_atom(body, discr)
    if atom is None:
        # a plain bool flag (field / parameter / named variable)
        if t[4] == "bool" if len(t) > 4 else False:
            r = root_of(body, discr)
            if r is not None and r[0] in ("arg", "local", "call"):
                atom = ("flag", r)
    if atom is None:
        return None
    res = []
    for v, b in arms:
        res.append((b, atom + (bool(int(v)),)))
    # otherwise = the complement of the listed values of a bool
    vals = [int(v) for v, _ in arms]
    if len(vals) == 1:
        res.append((otherwise, atom + (not bool(vals[0]),)))
    return res


class Path:
    __slots__ = ("blocks", "decisions", "end")

    def __init__(self, blocks, decisions, end):
        self.blocks = blocks
        self.decisions = decisions
        self.end = end


def enumerate_paths(body, start, end_of, max_paths=50000, opaque_ok=None):
    """All simple paths from `start` until end_of(bb) returns a label (checked when the block
    is entered, start included only if path length>0 is not required).  A switch whose
    condition is unrecognised raises CheckerError unless opaque_ok(bb) says the branch may be
    followed non-deterministically (then decision ('opaque', bb, target))."""
    out = []
    stack = [(start, (start,), ())]
    while stack:
        bb, blocks, decs = stack.pop()
        lab = end_of(bb) if len(blocks) > 1 or True else None
        if lab is not None and (len(blocks) > 1 or lab):
            out.append(Path(blocks, decs, lab))
            if len(out) > max_paths:
                raise CheckerError("too many paths in %s" % body.path)
            continue
        t = body.term(bb)
        if t[0] == "switch":
            sd = switch_decisions(body, bb)
            succs = body.succ[bb]
            if sd is None:
                if len(succs) == 1:
                    nxt = [(succs[0], None)]
                elif opaque_ok is not None and opaque_ok(bb):
                    nxt = [(s, ("opaque", bb, s)) for s in succs]
                else:
                    raise CheckerError("unrecognised branch condition in %s bb%d (line %s)" % (
                        body.path, bb, body.blocks[bb].get("l")))
            else:
                nxt = [(b, d) for (b, d) in sd if b in succs]
            for b, d in nxt:
                if b in blocks:
                    out.append(Path(blocks + (b,), decs + ((d,) if d else ()), "loop"))
                    continue
                stack.append((b, blocks + (b,), decs + ((d,) if d else ())))
        else:
            succs = body.succ[bb]
            if not succs:
                # `unreachable` terminators are the compiler's own impossible arms (e.g. the
                # otherwise-arm of an exhaustive match): not a path
                if t[0] != "unreachable":
                    out.append(Path(blocks, decs, "deadend:" + t[0]))
                continue
            for b in succs:
                if b in blocks:
                    out.append(Path(blocks + (b,), decs, "loop"))
                    continue
                stack.append((b, blocks + (b,), decs))
    return out


def consistent(decisions, rel, shape):
    """rel: dict (A,B)->'<'|'='|'>' ; shape: dict root->variant index or name.
    Returns True/False; raises KeyError-like CheckerError when an atom mentions an unknown pair."""
    for d in decisions:
        k = d[0]
        if k == "cmp":
            _, op, a, b, outcome = d
            if (a, b) in rel:
                r = rel[(a, b)]
            elif (b, a) in rel:
                r = FLIP_REL[rel[(b, a)]]
            else:
                raise CheckerError("comparison between unexpected operands %r %r" % (a, b))
            if (r in TRUTH[op]) != outcome:
                return False
        elif k == "variant":
            _, r, v = d
            if r not in shape:
                raise CheckerError("shape test on unexpected value %r" % (r,))
            if shape[r] != v:
                return False
        elif k == "variant_not":
            _, r, listed = d
            if r not in shape:
                raise CheckerError("shape test on unexpected value %r" % (r,))
            if shape[r] in listed:
                return False
        elif k == "is":
            _, r, name, outcome = d
            if r not in shape:
                raise CheckerError("shape test on unexpected value %r" % (r,))
            isname = "None" if shape[r] == 0 else "Some"
            if (isname == name) != outcome:
                return False
        elif k == "opaque":
            continue
        else:
            raise CheckerError("unknown decision %r" % (d,))
    return True


def returned_variant(body, path):
    """variant name of the enum aggregate last assigned to _0 along the path (None if not an
    aggregate assignment)"""
    res = None
    for bb in path.blocks:
        for s in body.stmts(bb):
            if s[0] == "=" and s[1] == [0]:
                rv = s[2]
                if rv[0] == "agg" and isinstance(rv[1], dict) and "variant" in rv[1]:
                    res = rv[1]["variant"]
                elif rv[0] == "use" and rv[1][0] == "k" and isinstance(rv[1][2], dict) and "variant" in rv[1][2]:
                    res = rv[1][2]["variant"]
                else:
                    res = ("expr", str(rv)[:80])
    return res


def flags_consistent(body, path):
    """False when the path takes a branch on a bool local that contradicts the constant the same path assigned
    to it earlier (`let is_x = matches!(..)` followed by `if is_x`): such paths do not exist."""
    vals = {}
    blocks = path.blocks
    for i, bb in enumerate(blocks):
        for s in body.stmts(bb):
            if s[0] == "=" and len(s[1]) == 1:
                rv = s[2]
                if rv[0] == "use" and rv[1][0] == "k" and isinstance(rv[1][2], bool):
                    vals[s[1][0]] = rv[1][2]
                elif rv[0] == "use" and rv[1][0] != "k" and len(rv[1][1]) == 1 and rv[1][1][0] in vals:
                    vals[s[1][0]] = vals[rv[1][1][0]]
                elif rv[0] == "un" and rv[1] == "Not" and op_local(rv[2]) in vals:
                    vals[s[1][0]] = not vals[op_local(rv[2])]
                else:
                    vals.pop(s[1][0], None)
        t = body.term(bb)
        if t[0] == "call" and len(t[3]) == 1:
            vals.pop(t[3][0], None)
        if t[0] == "switch" and i + 1 < len(blocks):
            l = op_local(t[1])
            if l in vals and isinstance(vals[l], bool):
                nxt = blocks[i + 1]
                arms = {int(v): tb for v, tb in t[2]}
                want = arms.get(int(vals[l]), t[3])
                if nxt != want:
                    return False
    return True
