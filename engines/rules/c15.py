"""C15 — directories and stdin path lists expand to the same run as explicit files.

Decides:
  R15.1 the directory walker follows links and is sorted (follow_links(true), sort(true) in the
        builder chain of the iterated walker); in the walk only entries whose file_type().is_file()
        holds become FileValid.
  R15.2 explicit files are classified with unparseable_are_text = true, walked files with false
        (constant operands), and both go through the same classifier (call graph).
  R15.3 '-' reads paths from stdin into the same list, at the position of the '-' argument:
        both pushes are on the same vector inside one forward iteration over the arguments.
Does not decide: jwalk's ordering relation, symlink cycles, non-UTF-8 names.
"""
from mir import CheckerError, op_local
from c16 import const_of

PP = "s4lib::readers::filepreprocessor::process_path"


def run(prog, rep, tier):
    R151 = rep.rule("R15.1", "sorted, link-following walk; only regular files become sources")
    R152 = rep.rule("R15.2", "explicit files always attempted, walked files filtered, one classifier")
    R153 = rep.rule("R15.3", "'-' splices stdin paths in place")
    b = prog.body(PP)

    # ------------------------------------------------------------ R15.1
    into = [c for c in b.live_calls() if c.o.endswith("IntoIterator::into_iter") and "WalkDirGeneric" in (c.callee.get("self") or "")]
    if len(into) != 1:
        raise CheckerError("process_path: %d iterated directory walkers" % len(into))
    chain = {}
    cur = into[0].args[0]
    for _ in range(10):
        o = [x for x in b.origins(cur) if x[0] == "call"]
        if len(o) != 1:
            break
        cc = [z for z in b.calls if z.bb == o[0][1]][0]
        name = cc.d.split("::")[-1]
        chain[name] = cc.args[1] if len(cc.args) > 1 else None
        if name == "new" or not cc.args:
            break
        cur = cc.args[0]
    sample = {k: (v[2] if v and v[0] == "k" else ("<expr>" if v else None)) for k, v in chain.items()}
    rep.examined(R151, PP + "|walker", sample={"builder_chain": sample})
    for opt in ("follow_links", "sort"):
        v = chain.get(opt)
        if v is None or v[0] != "k" or v[2] is not True:
            rep.violation(R151, PP + "|walker|" + opt, "process_path: the iterated directory walker is not configured with %s(true) (builder chain: %s)" % (opt, sample))
    # jwalk skips entries whose name begins with '.' unless told otherwise; "every regular file beneath it"
    # includes them (an explicitly named `.hidden.log` is read)
    v = chain.get("skip_hidden")
    if v is None or v[0] != "k" or v[2] is not False:
        rep.violation(R151, PP + "|walker|skip_hidden", "process_path: the directory walker keeps jwalk's default skip_hidden(true); `s4 dir` silently omits `dir/.hidden.log` and everything under `dir/.cache/` "
                      "although the same files are read when named explicitly (builder chain: %s)" % sample)
    # walk loop: FileValid pushes must be dominated by file_type().is_file() == true
    hdrs = [h for (t, h) in b.back_edges()]
    nx = [c for c in b.live_calls() if c.o.endswith("Iterator::next") and "jwalk" in (c.callee.get("self") or "")]
    if not nx:
        raise CheckerError("process_path: walk loop not found")
    # the loop consumes the walker itself: an adapter that can end the iteration early (map_while,
    # take_while, scan, take ...) between the walker and the loop drops every entry after its first stop
    adapt = [c for c in nx if not (c.callee.get("self") or "").startswith("jwalk::")]
    rep.examined(R151, PP + "|walk-loop-iterator", sample={"next_receiver_types": [(c.callee.get("self") or "")[:80] for c in nx]})
    if adapt:
        rep.violation(R151, PP + "|walk-loop-iterator", "process_path: the walk loop iterates %s, not the walker itself; an adapter such as map_while/take_while ends the walk at the first entry it rejects "
                      "(one unreadable entry or dangling link in a sub-directory silently drops every directory walked after it)" % (adapt[0].callee.get("self") or "")[:100])
    wl = [h for h in hdrs if nx[0].bb in b.loop_blocks(h)]
    L = b.loop_blocks(min(wl, key=lambda h: len(b.loop_blocks(h))))
    isf = [c for c in b.live_calls() if c.bb in L and c.d.endswith("fs::FileType::is_file")]
    valid_blocks = []
    for bb in sorted(L):
        for s in b.stmts(bb):
            if s[0] == "=" and s[2][0] == "agg" and isinstance(s[2][1], dict) and s[2][1].get("variant") == "FileValid":
                valid_blocks.append(bb)
    ok = False
    true_t = None
    if len(isf) == 1 and isf[0].target is not None:
        t = b.term(isf[0].target)
        # `if !is_file()` : find the arm reached when is_file is true
        sw = isf[0].target
        # possibly negated through a Not
        from decide import switch_decisions
        tm = None
        cur = sw
        for _ in range(3):
            t = b.term(cur)
            if t[0] == "switch":
                break
            if t[0] == "goto":
                cur = t[1]
        t = b.term(cur)
        if t[0] == "switch":
            o = b.origins(t[1], through_calls=("::not",))
            negated = False
            l = op_local(t[1])
            for d in b.defs.get(l, []):
                if d[1] != "call" and d[2][0] == "un" and d[2][1] == "Not":
                    negated = True
            arms = {int(v): tb for v, tb in t[2]}
            nz = t[3] if 0 in arms else arms.get(1)
            z = arms.get(0)
            true_t = z if negated else nz
    rep.examined(R151, PP + "|regular-files-only", sample={"is_file_tests_in_walk": len(isf), "FileValid_sites_in_walk": len(valid_blocks)})
    if true_t is None or not valid_blocks:
        raise CheckerError("process_path: is_file() guard of the walk not recognised")
    for vb in valid_blocks:
        if not b.dominates(true_t, vb):
            rep.violation(R151, PP + "|regular-files-only", "process_path: a walked entry can become a source (FileValid, line %s) without file_type().is_file() holding" % b.blocks[vb].get("l"))
            break

    # ------------------------------------------------------------ R15.2
    cls = [c for c in b.live_calls() if c.d.split("::")[-1] in ("pathbuf_to_filetype", "path_to_filetype") and "filepreprocessor" in c.d]
    in_walk = [c for c in cls if c.bb in L]
    explicit = [c for c in cls if c.bb not in L]
    rep.examined(R152, PP + "|flags", sample={"explicit": [(c.d.split("::")[-1], str(const_of(b, c.args[1]))) for c in explicit],
                                              "walked": [(c.d.split("::")[-1], str(const_of(b, c.args[1]))) for c in in_walk]})
    if len(explicit) < 1 or len(in_walk) < 1:
        raise CheckerError("process_path: classifier call sites explicit=%d walk=%d" % (len(explicit), len(in_walk)))
    for ex_ in explicit:
        if not (ex_.args[1][0] == "k" and ex_.args[1][2] is True):
            rep.violation(R152, PP + "|explicit", "process_path: a file named explicitly is not classified with unparseable_are_text = true; files with a known non-log suffix would be skipped although named explicitly")
    for iw_ in in_walk:
        if not (iw_.args[1][0] == "k" and iw_.args[1][2] is False):
            rep.violation(R152, PP + "|walked", "process_path: files found by walking a directory are not classified with unparseable_are_text = false")
    # the explicit call must be under path.is_file()
    pif = [c for c in b.live_calls() if c.d.endswith("path::Path::is_file")]
    if not pif or not all(b.dominates(pif[0].bb, ex_.bb) for ex_ in explicit):
        rep.violation(R152, PP + "|explicit-guard", "process_path: explicit-file classification is not guarded by Path::is_file")
    # same classifier
    impl = "s4lib::readers::filepreprocessor::pathbuf_to_filetype_impl"
    r1 = all(impl in prog.reachable_fns([ex_.d]) for ex_ in explicit)
    r2 = all(impl in prog.reachable_fns([iw_.d]) for iw_ in in_walk)
    rep.examined(R152, PP + "|one-classifier", sample={"explicit_reaches_impl": r1, "walked_reaches_impl": r2})
    if not r1 or not r2:
        rep.violation(R152, PP + "|one-classifier", "process_path: explicit and walked files are not classified by the same function")
    # archive members inherit the caller's flag in both places (explicit tar and tar met in a walk)
    tars = [c for c in b.live_calls() if c.d.endswith("filepreprocessor::process_path_tar")]
    for i, c in enumerate(tars):
        o = b.origins(c.args[1])
        okf = bool(o) and all(x[0] == "arg" and x[1] == 2 and not x[2] for x in o)
        rep.examined(R152, "%s|tar#%d" % (PP, i), sample={"line": c.line, "in_walk": c.bb in L, "flag_is_callers_flag": okf})
        if not okf:
            rep.violation(R152, "%s|tar-flag|%s" % (PP, "walk" if c.bb in L else "explicit"), "process_path: members of a tar %s are classified with a flag other than the caller's unparseable_are_text (line %d); the same archive then expands differently when named explicitly and when found under a named directory" % (
                "met while walking a directory" if c.bb in L else "named explicitly", c.line))
    if len(tars) < 2:
        raise CheckerError("process_path: %d process_path_tar calls" % len(tars))
    # main passes true for command-line paths
    mb = prog.body("s4::main")
    pc = [c for c in mb.live_calls() if c.d == PP]
    if len(pc) != 1:
        raise CheckerError("main: %d process_path calls" % len(pc))
    rep.examined(R152, "s4::main|flag", sample={"process_path_flag": str(const_of(mb, pc[0].args[1]))})
    if not (pc[0].args[1][0] == "k" and pc[0].args[1][2] is True):
        rep.violation(R152, "s4::main|flag", "main: command-line paths are not processed with unparseable_are_text = true")

    # ------------------------------------------------------------ R15.3
    cb = prog.body("s4::cli_process_args")
    eqs = [c for c in cb.live_calls() if c.d.endswith("PartialEq for str>::eq") and const_of(cb, c.args[1]) == "-"]
    pushes = [c for c in cb.live_calls() if c.d.endswith("Vec::<T, A>::push") and "String" in (c.callee.get("self") or c.f)]
    if len(eqs) != 1 or len(pushes) < 2:
        raise CheckerError("cli_process_args: '-' handling not recognised (eq=%d, pushes=%d)" % (len(eqs), len(pushes)))
    t = cb.term(eqs[0].target)
    arms = {int(v): tb for v, tb in t[2]}
    dash_t = t[3] if 0 in arms else arms.get(1)
    other_t = arms.get(0)

    def vec_of(c):
        res = set()
        for x in cb.origins(c.args[0]):
            if x[0] == "local":
                res.add(x[1])
            elif x[0] == "call":
                res.add(cb.term(x[1])[3][0])
        return res
    dash_p = [p for p in pushes if cb.dominates(dash_t, p.bb)]
    norm_p = [p for p in pushes if other_t is not None and cb.dominates(other_t, p.bb)]
    same = bool(dash_p) and bool(norm_p) and vec_of(dash_p[0]) == vec_of(norm_p[0]) and len(vec_of(dash_p[0])) == 1
    # stdin pushes take their value from stdin lines
    from_stdin = False
    for p in dash_p:
        for x in cb.origins(p.args[1]):
            if x[0] == "call" and "Lines" in ([z for z in cb.calls if z.bb == x[1]][0].callee.get("self") or ""):
                from_stdin = True
    # outer loop is a forward iteration over the argument slice, both pushes inside it
    outer = [c for c in cb.live_calls() if c.o.endswith("Iterator::next") and (c.callee.get("self") or "").startswith("std::slice::Iter<'_, std::string::String>")]
    inloop = False
    if outer:
        hd = [h for (tl, h) in cb.back_edges() if outer[0].bb in cb.loop_blocks(h)]
        if hd:
            OL = cb.loop_blocks(max(hd, key=lambda h: len(cb.loop_blocks(h))))
            inloop = bool(dash_p) and bool(norm_p) and dash_p[0].bb in OL and norm_p[0].bb in OL
    rep.examined(R153, cb.path + "|stdin-splice", sample={"same_vector": same, "stdin_lines_pushed": from_stdin, "inside_forward_argument_loop": inloop})
    if not same:
        rep.violation(R153, cb.path + "|stdin-splice|vector", "cli_process_args: paths read from stdin are not appended to the same list as the command-line paths")
    if not from_stdin:
        rep.violation(R153, cb.path + "|stdin-splice|source", "cli_process_args: the '-' arm does not push the lines read from stdin")
    if not inloop:
        rep.violation(R153, cb.path + "|stdin-splice|position", "cli_process_args: stdin paths are not spliced at the position of the '-' argument (not inside the forward loop over the arguments)")
    revs = [c for c in cb.live_calls() if c.o.split("::")[-1] in ("rev", "sort", "sort_unstable", "dedup", "reverse", "sort_by") and "String" in (c.callee.get("self") or c.f)]
    if revs:
        rep.violation(R153, cb.path + "|reorder", "cli_process_args: the path list is reordered (%s)" % [c.o for c in revs])

    # ------------------------------------------------------------ R15.4 links are followed everywhere or nowhere
    # The walk follows symbolic links (R15.1) and explicit paths are opened through them; every size or
    # kind test on a path must look at the target too.  `symlink_metadata()` looks at the link itself
    # (its length is the length of the target *string*): the "file too small" pre-check then dismisses
    # `cur -> a.log` as a 5-byte file.
    R154 = rep.rule("R15.4", "no path test looks at a symbolic link itself (symlink_metadata) where links are followed")
    nsm = 0
    for p_ in ("s4::processing_loop", "s4lib::readers::filepreprocessor::process_path", "s4lib::readers::filepreprocessor::process_path_tar"):
        fb_ = prog.body(p_, required=False)
        if fb_ is None:
            continue
        md = [c for c in fb_.live_calls() if c.d.split("::")[-1] in ("metadata", "symlink_metadata") and ("Path" in c.d or "fs::" in c.d or "DirEntry" in c.d)]
        nsm += len(md)
        sl = [c for c in md if c.d.split("::")[-1] == "symlink_metadata"]
        rep.examined(R154, p_, sample={"metadata_calls": [c.d.split("::")[-1] for c in md]})
        if sl:
            rep.violation(R154, p_, "%s tests a path with symlink_metadata() (line %d); for a symbolic link that is the link's own length and kind, so a link with a short target string is dismissed as an empty or too small file "
                          "although the same file is read when it is reached another way" % (p_.split("::")[-1], sl[0].line))
    if nsm == 0:
        raise CheckerError("R15.4: no metadata() calls found in the path handling functions")

    # ------------------------------------------------------------ R15.5 a file is typed by the name it resolves to, however it was reached
    # An explicit path is canonicalized before its name decides the reader.  A link found by the walk must
    # be typed the same way, or `dir/current.log -> ../store/data.gz` is read as text beneath the directory
    # and as gzip when named.
    R155 = rep.rule("R15.5", "every classification in process_path is fed the resolved (canonicalized) name")
    pb_ = prog.body("s4lib::readers::filepreprocessor::process_path")
    n155 = 0
    cls155 = []
    for c in pb_.live_calls():
        if not (c.d.endswith("::path_to_filetype") or c.d.endswith("::pathbuf_to_filetype")):
            continue
        n155 += 1
        seen_, work_, canon_ = set(), [c.args[0]], False
        while work_ and len(seen_) < 60:
            cur_ = work_.pop()
            for o_ in pb_.origins(cur_, through_calls=("::deref", "::as_path", "::as_ref", "::borrow")):
                if o_[0] != "call" or o_[1] in seen_:
                    continue
                seen_.add(o_[1])
                cc_ = [z for z in pb_.calls if z.bb == o_[1]][0]
                nm_ = (cc_.o or cc_.d).split("::")[-1]
                if nm_ in ("canonicalize", "realpath"):   # read_link resolves one level only: a chain of links is typed by its middle
                    canon_ = True
                elif nm_ in ("unwrap_or_else", "unwrap_or", "unwrap", "to_path_buf", "clone", "into", "from", "expect", "unwrap_or_default", "map", "ok", "and_then", "to_owned", "as_path"):
                    work_.extend(a for a in cc_.args if a[0] != "k")
        cls155.append((c, canon_))
    for c, canon_ in cls155:
        # a second classification by the name as found is a fallback when it can only be reached after a classification of the resolved name
        fallback = (not canon_) and any(cn2 and c2 is not c and pb_.dominates(c2.bb, c.bb) for c2, cn2 in cls155)
        rep.examined(R155, "%s|classify@%s#%d" % (pb_.path, c.d.split("::")[-1], c.bb), sample={"call": c.d.split("::")[-1], "line": c.line, "name_is_resolved": canon_, "fallback_after_resolved_classification": fallback})
        if not canon_ and not fallback:
            rep.violation(R155, "%s|classify@%s|unresolved" % (pb_.path, c.d.split("::")[-1]), "process_path (line %d): %s() is given the path as found, not the name it resolves to, while the other branch classifies the canonicalized path; "
                          "a symbolic link `current.log -> data.gz` is then read as text beneath a directory and as gzip when named on the command line" % (c.line, c.d.split("::")[-1]))
    if n155 < 2:
        raise CheckerError("R15.5: %d classification calls in process_path (expected the explicit and the walk branch)" % n155)

    # ------------------------------------------------------------ R15.6 whether an entry is listed depends on that entry alone
    # "Naming a directory is equivalent to naming every regular file beneath it": an entry is listed or
    # not by its own kind and name.  A walk loop that consults a collection it fills itself (a set of
    # paths "already seen", a counter, a map of names) makes the listing depend on what was walked
    # before: two paths that resolve to one file (`current -> app.log`) are then listed once beneath the
    # directory but read twice when both are named.
    R156 = rep.rule("R15.6", "the walk loop of process_path takes no decision from a collection it fills itself")
    wl_ = [c for c in pb_.live_calls() if c.o.endswith("Iterator::next") and "jwalk" in (c.callee.get("self") or "")]
    if len(wl_) != 1:
        raise CheckerError("process_path: %d next() calls on the walker" % len(wl_))
    hs_ = [h for (_tl, h) in pb_.back_edges() if wl_[0].bb in pb_.loop_blocks(h)]
    if not hs_:
        raise CheckerError("process_path: the walker's next() is not in a loop")
    LW = pb_.loop_blocks(min(hs_, key=lambda h: len(pb_.loop_blocks(h))))
    stateful = []
    ncoll = 0
    for c in pb_.live_calls():
        if c.bb not in LW:
            continue
        st_ = (c.callee.get("self") or "")
        nm_ = (c.o or c.d).split("::")[-1]
        if not any(k_ in st_ for k_ in ("HashSet", "HashMap", "BTreeSet", "BTreeMap", "Vec<", "VecDeque")):
            continue
        ncoll += 1
        if nm_ in ("insert", "contains", "contains_key", "get", "replace", "remove", "take", "entry", "binary_search", "iter", "len", "is_empty", "last", "first"):
            # does the result feed a branch inside the loop?
            feeds = False
            for bb in LW:
                t = pb_.term(bb)
                if t[0] == "switch":
                    for o_ in pb_.origins(t[1], through_calls=("ops::Not>::not", "::is_some", "::is_none", "::is_ok", "::is_err", "::unwrap_or", "::any", "::all")):
                        if o_[0] == "call" and o_[1] == c.bb:
                            feeds = True
            if feeds:
                stateful.append((st_.split("<")[0].split("::")[-1] + "::" + nm_, c.line))
    rep.examined(R156, pb_.path + "|walk-loop", sample={"loop_blocks": len(LW), "collection_calls_in_loop": ncoll, "decisions_taken_from_a_collection": stateful})
    if ncoll == 0:
        raise CheckerError("R15.6: no collection call in the walk loop (the push of the listed paths was expected)")
    if stateful:
        rep.violation(R156, pb_.path + "|walk-loop|stateful-skip", "process_path (line %d): the walk loop decides about an entry from %s, a collection filled by earlier entries; "
                      "a second path to an already listed file (an alias `current -> app.log`, a linked sub-directory) is dropped beneath the directory but read when named" % (stateful[0][1], stateful[0][0]))

    return rep.finish(
        "Static necessary-condition check of path expansion: the iterated jwalk walker is built with follow_links(true) and sort(true) and only "
        "entries passing file_type().is_file() become sources; explicit files are classified with unparseable_are_text=true and walked files "
        "with false by the same classifier; '-' pushes stdin lines into the same vector inside the forward loop over the arguments.",
        ["jwalk's ordering relation", "symlink cycles", "non-UTF-8 names"])
