"""C11 — year-less timestamps receive the right year.

Decides:
  R11.1 stage 2 calls process_missing_year exactly when the pattern has no year, with the reader's
        own mtime(); the worker calls stage 2 before streaming.
  R11.2 mtime source per container: Gz and Tar arms take the time stored inside (falling back to
        the filesystem time only when it is 0), all other arms the filesystem time; Text and
        FixedStruct agree.
  R11.3 streamed year-less files keep all blocks: disable_drop_data is reached whenever
        is_streamed_file() && !dt_pattern_has_year() in block-zero analysis.
  R11.4 in process_missing_year the assumed year starts at the year of mtime converted with the
        --tz-offset zone; the only other assignment in the backward walk is "previous year - 1",
        guarded by cur.dt() > prev.dt() and a jump larger than the 25-hour constant; and the
        rollover test is passed on every way out of the walk except "no more messages"/error
        (so the first message of the file is not skipped).
Does not decide: the inferred dates on concrete logs, the 29-February limitation, window interplay.
"""
import decide
from c05 import match_table
from mir import CheckerError, op_local

SP = "s4lib::readers::syslogprocessor::SyslogProcessor"
BR = "s4lib::readers::blockreader::BlockReader"


def run(prog, rep, tier):
    facts = prog.facts
    R111 = rep.rule("R11.1", "year inference runs iff the pattern has no year, with the reader's mtime")
    R112 = rep.rule("R11.2", "mtime source per container")
    R113 = rep.rule("R11.3", "streamed year-less files keep all blocks")
    R114 = rep.rule("R11.4", "year starts at mtime's year in the --tz-offset zone and only steps back on a >25h forward jump")

    # ------------------------------------------------------------ R11.1
    s2 = prog.body(SP + "::process_stage2_find_dt")
    hy = [c for c in s2.live_calls() if c.d.endswith("::dt_pattern_has_year")]
    pm = [c for c in s2.live_calls() if c.d == SP + "::process_missing_year"]
    mt = [c for c in s2.live_calls() if c.d.endswith("::mtime")]
    ok = False
    if len(hy) == 1 and len(pm) == 1 and hy[0].target is not None:
        t = s2.term(hy[0].target)
        # find the switch on the (possibly negated) result
        cur = hy[0].target
        for _ in range(3):
            t = s2.term(cur)
            if t[0] == "switch":
                break
            if t[0] in ("goto",):
                cur = t[1]
            elif t[0] == "call":
                cur = t[4]
        if t[0] == "switch":
            o = s2.origins(t[1], through_calls=("::not",))
            negated = any(d[1] != "call" and d[2][0] == "un" and d[2][1] == "Not" for d in s2.defs.get(op_local(t[1]) or -1, [])) or \
                any(c.d.endswith("::not") and c.dest[0] == op_local(t[1]) for c in s2.live_calls())
            arms = {int(v): tb for v, tb in t[2]}
            nz = t[3] if 0 in arms else arms.get(1)
            z = arms.get(0)
            noyear_t = nz if negated else z
            hasyear_t = z if negated else nz
            if noyear_t is not None and s2.dominates(noyear_t, pm[0].bb) and (hasyear_t is None or pm[0].bb not in s2.reachable(hasyear_t)):
                ok = True
    src_ok = bool(pm) and bool(mt) and all(x[0] == "call" and x[2].endswith("::mtime") for x in s2.origins(pm[0].args[1]))
    rep.examined(R111, s2.path, sample={"has_year_tests": len(hy), "inference_calls": len(pm), "only_when_no_year": ok, "mtime_from_reader": src_ok})
    if not ok:
        rep.violation(R111, s2.path + "|condition", "process_stage2_find_dt: process_missing_year is not called exactly when the datetime pattern has no year")
    if not src_ok:
        rep.violation(R111, s2.path + "|mtime", "process_stage2_find_dt: the year inference is not seeded with the reader's own mtime()")
    wb = prog.body("s4::exec_syslogprocessor")
    c2 = [c for c in wb.live_calls() if c.d.endswith("::process_stage2_find_dt")]
    c3 = [c for c in wb.live_calls() if c.d.endswith("::find_sysline_between_datetime_filters")]
    rep.examined(R111, wb.path + "|order", sample={"stage2_calls": len(c2), "stream_find_calls": len(c3)})
    if not c2 or not c3 or not all(any(wb.dominates(a.bb, f.bb) for a in c2) for f in c3):
        rep.violation(R111, wb.path + "|order", "exec_syslogprocessor: messages are streamed before stage 2 (year inference) has run")

    # ------------------------------------------------------------ R11.2
    mb = prog.body(BR + "::mtime")
    ftv = {v["idx"]: v["name"] for v in facts.adts["s4lib::common::FileType"]["variants"]}
    fav = {v["idx"]: v["name"] for v in facts.adts["s4lib::common::FileTypeArchive"]["variants"]}

    def src_of_return(p):
        srcs = set()
        for bb in p.blocks:
            for s in mb.stmts(bb):
                if s[0] == "=" and s[1] == [0]:
                    for o in mb.origins(["cp", [0]]):
                        pass
        return srcs

    def end_lab(bb):
        # label a path by where the returned SystemTime comes from
        for s in mb.stmts(bb):
            if s[0] == "=" and s[1] == [0]:
                rv = s[2]
                if rv[0] == "use" and rv[1][0] in ("cp", "mv"):
                    keys = set()
                    for o in mb.origins(rv[1]):
                        if o[0] == "arg":
                            flds = [x for x in o[2] if x not in ("*", "&")]
                            keys.add("field:" + (flds[0] if flds else "?"))
                        elif o[0] == "call":
                            cc = [z for z in mb.calls if z.bb == o[1]][0]
                            inner = set()
                            for a in cc.args:
                                for oo in mb.origins(a, through_calls=("::as_ref", "::unwrap", "::deref")):
                                    if oo[0] == "arg":
                                        flds = [x for x in oo[2] if x not in ("*", "&") and not x.startswith("as ")]
                                        inner.add(".".join(flds[:1]))
                            keys.add("conv(%s)" % ",".join(sorted(inner)))
                        else:
                            keys.add(o[0])
                    return "|".join(sorted(keys))
        t = mb.term(bb)
        if t[0] == "call" and "panic" in t[1].get("d", ""):
            return "panic"
        return None
    table = match_table(mb, "filetype", end_lab)
    per = {}
    for (o, i), labs in table.items():
        if o is None:
            continue
        per.setdefault(ftv[o], {})[fav.get(i, "*")] = labs
    for a in fav.values():
        lt, lf = per.get("Text", {}).get(a), per.get("FixedStruct", {}).get(a)
        inst = "%s|%s" % (mb.path, a)
        rep.examined(R112, inst, sample={"archive": a, "Text": sorted(lt or []), "FixedStruct": sorted(lf or [])})
        if lt != lf or not lt:
            rep.violation(R112, inst, "BlockReader::mtime: %s files take their modification time from %s as Text but %s as FixedStruct" % (a, sorted(lt or []), sorted(lf or [])))
            continue
        labs = "|".join(sorted(lt))
        if a in ("Gz", "Tar"):
            want = a.lower()
            if "conv(%s)" % want not in labs:
                rep.violation(R112, inst, "BlockReader::mtime: a .%s file does not use the modification time stored inside it (sources: %s); year inference would use the time the archive was copied" % (want, sorted(lt)))
            if "field:file_metadata_modified" not in labs:
                rep.info("mtime(%s) has no filesystem fallback for a zero stored time" % a)
        else:
            if labs != "field:file_metadata_modified":
                rep.violation(R112, inst, "BlockReader::mtime: %s files take their modification time from %s, expected the filesystem time" % (a, sorted(lt)))

    # the stored time is used whenever there is one: the only test allowed on it is "is it zero"; comparing it with
    # the container file's own time (and preferring the latter) re-introduces the copy/restore time the rule excludes
    cmp_fs = []
    for bb in sorted(mb.live):
        t_ = mb.term(bb)
        if t_[0] != "switch":
            continue
        srcs_ = set()
        for x in mb.origins(t_[1], through_calls=("::not", "::is_le", "::is_lt", "::is_ge", "::is_gt")):
            if x[0] == "arg":
                srcs_.update(q for q in x[2] if isinstance(q, str))
            elif x[0] == "call":
                cc_ = [z for z in mb.calls if z.bb == x[1]][0]
                for a_ in cc_.args:
                    if a_[0] != "k":
                        for y in mb.origins(a_, through_calls=("::deref",)):
                            if y[0] == "arg":
                                srcs_.update(q for q in y[2] if isinstance(q, str))
            elif x[0] == "bin":
                st_ = mb.stmts(x[1])[x[2]]
                for a_ in (st_[2][2], st_[2][3]):
                    if a_[0] != "k":
                        for y in mb.origins(a_):
                            if y[0] == "arg":
                                srcs_.update(q for q in y[2] if isinstance(q, str))
        if "file_metadata_modified" in srcs_:
            cmp_fs.append(mb.blocks[bb].get("l"))
    rep.examined(R112, mb.path + "|stored-vs-filesystem", sample={"branches_that_compare_with_the_container_file_time": cmp_fs})
    if cmp_fs:
        rep.violation(R112, mb.path + "|stored-vs-filesystem", "BlockReader::mtime decides by comparing with the container file's own modification time (line %s) whether to use the time stored inside the .gz/.tar; "
                      "an archive that was copied, restored or touched to an earlier year then dates every message of a year-less log by the wrong year" % cmp_fs[0])
    # the stored time itself: read from the container header unconditionally (only the header's presence may gate it)
    nb = prog.body(BR + "::new")
    hm = [c for c in nb.live_calls() if c.d.endswith("GzHeader::mtime") or (c.d.endswith("::mtime") and ("flate2" in c.d or "tar::" in c.d))]
    if len(hm) < 2:
        raise CheckerError("BlockReader::new: %d container-header mtime reads (gz and tar expected)" % len(hm))
    for c in hm:
        gates = []
        for bb in sorted(nb.live):
            t = nb.term(bb)
            if t[0] != "switch" or not nb.dominates(bb, c.bb) or bb == c.bb:
                continue
            sd = decide.switch_decisions(nb, bb)
            if not sd:
                continue
            for tgt, d in sd:
                if d[0] in ("variant", "variant_not") and d[1][0] == "call" and tgt != bb and nb.dominates(tgt, c.bb) and nb.pred[tgt] == [bb]:
                    gates.append(d[1][1])
        kind = "gz" if "flate2" in c.d or "GzHeader" in c.d else "tar"
        # (for tar the member lookup by path legitimately gates the read)
        optional = ("filename", "comment", "extra") if kind == "gz" else ("link_name", "username", "groupname", "link_name_bytes")
        foreign = [g for g in gates if g in optional]
        rep.examined(R112, "%s|%s-header-mtime" % (nb.path, kind), sample={"container": kind, "read_gated_by_results_of": sorted(set(gates)), "foreign_gates": foreign})
        if foreign:
            rep.violation(R112, "%s|%s-header-mtime" % (nb.path, kind), "BlockReader::new: the modification time stored in the %s header is only read when the header's %s is present; archives written without that optional field fall back to the archive file's own time and year-less logs get the wrong year" % (kind, foreign[0]))

    # ------------------------------------------------------------ R11.3
    bz = prog.body(SP + "::blockzero_analysis_syslines")
    dis = [c for c in bz.live_calls() if c.d.endswith("::disable_drop_data")]
    st = [c for c in bz.live_calls() if c.d.endswith("::is_streamed_file")]
    hy2 = [c for c in bz.live_calls() if c.d.endswith("::dt_pattern_has_year")]
    ok3 = False
    if dis and st and hy2:
        # paths from the streamed test on which streamed==true and has_year==false must pass a disable call
        def end3(bb):
            if bb in [d.bb for d in dis]:
                return "disabled"
            if bz.term(bb)[0] == "ret":
                return "ret"
            return None
        bad = 0
        n = 0
        for p in decide.enumerate_paths(bz, st[0].bb, end3, opaque_ok=lambda bb: True, max_paths=20000):
            fl = {}
            for d in p.decisions:
                if d[0] == "flag" and d[1][0] == "call":
                    fl[d[1][1]] = d[2]
            if fl.get("is_streamed_file") is True and fl.get("dt_pattern_has_year") is False:
                n += 1
                if p.end != "disabled":
                    bad += 1
        ok3 = n > 0 and bad == 0
    rep.examined(R113, bz.path, sample={"disable_calls": len(dis), "all_streamed_yearless_paths_disable": ok3})
    if not ok3:
        rep.violation(R113, bz.path, "blockzero_analysis_syslines: a streamed file whose pattern has no year can proceed without disable_drop_data(); the backward year walk would meet dropped blocks")
    # ... and that decision lies on every way to an accepting return: no FileOk can be produced
    # and returned on a path that never asks whether the file is streamed
    if st:
        region = bz.reachable(0, {st[0].bb})
        acc = []
        for bb in sorted(region):
            for s_ in bz.stmts(bb):
                if s_[0] == "=":
                    rv = s_[2]
                    v = None
                    if rv[0] == "agg" and isinstance(rv[1], dict):
                        v = rv[1].get("variant")
                    elif rv[0] == "use" and rv[1][0] == "k" and isinstance(rv[1][2], dict):
                        v = rv[1][2].get("variant")
                    if v == "FileOk" and any(bz.term(x)[0] == "ret" for x in bz.reachable(bb, {st[0].bb})):
                        acc.append(bz.blocks[bb].get("l"))
        rep.examined(R113, bz.path + "|decision-on-every-accepting-path", sample={"accepting_results_reachable_without_the_streamed_test": acc})
        if acc:
            rep.violation(R113, bz.path + "|decision-on-every-accepting-path", "blockzero_analysis_syslines: the file can be accepted (FileOk built at line %s) on a path that never reaches the "
                          "'streamed and year-less' test, so disable_drop_data() is skipped there; the backward year walk of a compressed year-less log then meets dropped blocks and output is cut short" % acc[0])
    # the drop functions honour the switch
    db = prog.body(BR + "::drop_block")
    first = db.term(0)
    honours = False
    for bb in sorted(db.live):
        t = db.term(bb)
        if t[0] == "switch":
            o = db.origins(t[1], through_calls=("::not",))
            if any(x[0] == "arg" and "drop_data" in x[2] for x in o):
                honours = True
            break
    rep.examined(R113, db.path + "|honours-switch", sample={"first_test_is_drop_data_flag": honours})
    if not honours:
        rep.violation(R113, db.path + "|honours-switch", "BlockReader::drop_block does not return early when dropping is disabled")

    # ------------------------------------------------------------ R11.4
    pb = prog.body(SP + "::process_missing_year")
    years = [c for c in pb.live_calls() if c.o.endswith("Datelike::year")]
    conv = [c for c in pb.live_calls() if c.d.endswith("datetime::systemtime_to_datetime")]
    ok4a = False
    # the year that seeds the assumed-year variable
    seed = None
    for yc in years:
        for l, ds in pb.defs.items():
            pass
    yv0 = [i for i, l in enumerate(pb.locals) if l.get("name") == "year_opt" or (l["ty"] == "std::option::Option<i32>" and l.get("name"))]
    for yc in years:
        if yv0 and any(x[0] == "call" and x[1] == yc.bb for d in pb.defs.get(yv0[0], []) if d[1] != "call" and d[2][0] == "agg" for x in pb.origins(d[2][2][0])):
            seed = yc
    if seed is not None and conv:
        years = [seed]
        yo = pb.origins(years[0].args[0], through_calls=("::date_naive", "::deref", "::naive_local"))
        from_conv = all(x[0] == "call" and x[1] == conv[0].bb for x in yo) and bool(yo)
        zo = pb.origins(conv[0].args[0])
        zone_ok = any(x[0] == "arg" and x[1] == 1 and "tz_offset" in x[2] for x in zo)
        mo = pb.origins(conv[0].args[1])
        mtime_ok = any(x[0] == "arg" and x[1] == 2 for x in mo)
        ok4a = from_conv and zone_ok and mtime_ok
    rep.examined(R114, pb.path + "|start-year", sample={"year_calls": [c.callee.get("self") for c in years], "converted_with_tz_offset_from_mtime": ok4a})
    if not ok4a:
        rep.violation(R114, pb.path + "|start-year", "process_missing_year: the starting year is not the year of mtime converted to the --tz-offset zone (a UTC or local conversion is off by one year for files written within the offset of New Year)")
    # assignments to the year variable
    yv = [i for i, l in enumerate(pb.locals) if l.get("name") == "year_opt" or (l["ty"] == "std::option::Option<i32>" and l.get("name"))]
    if len(yv) != 1:
        raise CheckerError("process_missing_year: assumed-year variable not identified")
    yv = yv[0]
    hdrs = set(h for _, h in pb.back_edges())
    if not hdrs:
        raise CheckerError("process_missing_year: backward walk loop not found")
    L = set()
    for h in hdrs:
        L |= pb.loop_blocks(h)
    loop_defs = [d for d in pb.defs.get(yv, []) if d[0] in L]
    dec_ok = False
    guard_ok = False
    if len(loop_defs) == 1 and loop_defs[0][1] != "call":
        d = loop_defs[0]
        o = pb.origins(["cp", [yv]])
        subs = []
        for bb in sorted(L):
            for s in pb.stmts(bb):
                if s[0] == "=" and s[2][0] == "bin" and s[2][1] in ("Sub", "SubWithOverflow", "SubUnchecked") and s[2][3][0] == "k" and s[2][3][2] == 1:
                    if any(x[0] == "call" and x[2].endswith("::unwrap") for x in pb.origins(s[2][2])):
                        subs.append(bb)
        dec_ok = bool(subs) and any(pb.dominates(sb, d[0]) or sb == d[0] for sb in subs)
        # guards: two comparisons gt true dominating the decrement
        gts = []
        for bb in sorted(L):
            t = pb.term(bb)
            if t[0] == "switch":
                at = decide.bool_atom(pb, t[1])
                if at and at[0] == "cmp" and at[1] in ("gt", "lt"):
                    arms = {int(v): tb for v, tb in t[2]}
                    true_t = t[3] if 0 in arms else arms.get(1)
                    if true_t is not None and pb.dominates(true_t, d[0]):
                        gts.append((bb, at))
        dt_cmp = [g for g in gts if all(r[0] == "call" and r[1] == "dt" for r in (g[1][2], g[1][3]))]
        thr_cmp = []
        for g in gts:
            s_ = " ".join(str(r) for r in (g[1][2], g[1][3]))
            if "BACKWARDS_TIME_JUMP_MEANS_NEW_YEAR" in s_ or "sub" in s_.lower() or "'call', 'deref'" in s_:
                thr_cmp.append(g)
        guard_ok = bool(dt_cmp) and len(gts) >= 2
    # the threshold itself: "time never runs backwards by more than a day"; the code documents 25 hours
    # (a day plus a daylight-saving hour).  Anything below a day flags ordinary same-day disorder as
    # a new year, anything above 25h lets time run backwards by more than the documented day.
    ib = prog.body("<s4lib::readers::syslogprocessor::BACKWARDS_TIME_JUMP_MEANS_NEW_YEAR as std::ops::Deref>::deref::__static_ref_initialize")
    UNIT = {"try_seconds": 1, "seconds": 1, "try_minutes": 60, "minutes": 60, "try_hours": 3600, "hours": 3600, "try_days": 86400, "days": 86400,
            "try_weeks": 604800, "weeks": 604800, "try_milliseconds": 0.001, "milliseconds": 0.001}

    def ev(op, depth=0):
        if op[0] == "k":
            return op[2] if isinstance(op[2], int) and not isinstance(op[2], bool) else None
        l = op_local(op)
        ds = ib.defs.get(l, []) if l is not None else []
        if len(ds) != 1 or ds[0][1] == "call" or depth > 10:
            return None
        rv = ds[0][2]
        if rv[0] == "use":
            return ev(rv[1], depth + 1)
        if rv[0] == "bin":
            a, c_ = ev(rv[2], depth + 1), ev(rv[3], depth + 1)
            if a is None or c_ is None:
                return None
            opn = rv[1].replace("WithOverflow", "").replace("Unchecked", "")
            return {"Mul": a * c_, "Add": a + c_, "Sub": a - c_}.get(opn)
        if rv[0] == "cast":
            return ev(rv[2], depth + 1)
        if rv[0] == "field" or (rv[0] == "use"):
            return None
        return None
    ctor = [c for c in ib.live_calls() if c.d.startswith("chrono::TimeDelta::") or c.d.startswith("chrono::Duration::")]
    secs = None
    if len(ctor) == 1 and ctor[0].d.split("::")[-1] in UNIT and len(ctor[0].args) == 1:
        v = ev(ctor[0].args[0])
        if v is not None:
            secs = v * UNIT[ctor[0].d.split("::")[-1]]
    if secs is None:
        raise CheckerError("BACKWARDS_TIME_JUMP_MEANS_NEW_YEAR initializer not evaluable (%s)" % [c.d for c in ctor])
    rep.examined(R114, "BACKWARDS_TIME_JUMP_MEANS_NEW_YEAR|value", sample={"constructor": ctor[0].d, "seconds": secs, "hours": secs / 3600.0, "accepted_range_hours": [24, 25]})
    if not (24 * 3600 <= secs <= 25 * 3600):
        rep.violation(R114, "BACKWARDS_TIME_JUMP_MEANS_NEW_YEAR|value", "the minimum forward jump that means 'the year changed' is %.1f hours; the property allows time to run backwards by at most a day "
                      "(documented as 25h): with this value %s" % (secs / 3600.0,
                      "two messages 340..365 days apart (e.g. 'Jan 10' followed by next year's 'Jan  3') stay in one year and the earlier ones are dated a year late" if secs > 25 * 3600 else "ordinary disorder of under a day inside one file steps the year back"))
    if not thr_cmp:
        rep.violation(R114, pb.path + "|step-guard|threshold", "process_missing_year: the year step is not guarded by a comparison with BACKWARDS_TIME_JUMP_MEANS_NEW_YEAR")
    rep.examined(R114, pb.path + "|step", sample={"loop_assignments_to_year": len(loop_defs), "is_previous_minus_one": dec_ok, "guarded_by_forward_jump": guard_ok})
    if len(loop_defs) != 1 or not dec_ok:
        rep.violation(R114, pb.path + "|step", "process_missing_year: inside the backward walk the assumed year is changed other than by 'previous year - 1' (%d assignments)" % len(loop_defs))
    elif not guard_ok:
        rep.violation(R114, pb.path + "|step-guard", "process_missing_year: the year step is not guarded by 'earlier message has a later time' and the minimum jump")
    # rollover section is on every way out after a message was found (except Done/Err of the find itself)
    finds = [c for c in pb.live_calls() if c.d.endswith("::find_sysline_year")]
    if len(finds) != 1:
        raise CheckerError("process_missing_year: %d find_sysline_year calls" % len(finds))
    import c03
    swbb, arms, oth = c03.result_arms(pb, finds[0])
    names = {v["idx"]: v["name"] for v in facts.adts["s4lib::common::ResultS3"]["variants"]} if "s4lib::common::ResultS3" in facts.adts else None
    found_t = None
    for vidx, tgt in arms.items():
        # Found arm: the one from which the loop continues
        if any(h in pb.reachable(tgt) for h in hdrs) and found_t is None:
            found_t = tgt
    prev_sw = None
    for bb in sorted(L):
        t = pb.term(bb)
        if t[0] == "switch":
            sd = decide.switch_decisions(pb, bb)
            if sd and any(d_[0] in ("variant", "variant_not") and d_[1][0] == "local" and "Sysline" in pb.local_ty(d_[1][1]) and "Option" in pb.local_ty(d_[1][1]) for _, d_ in sd):
                prev_sw = bb
                break
    bad_exit = None
    if found_t is not None and prev_sw is not None:
        for x in sorted(L):
            for s in pb.succ[x]:
                if s not in L and pb.term(s)[0] != "unreachable" and x in pb.reachable(found_t, hdrs):
                    if x in pb.reachable(found_t, {prev_sw} | hdrs) and x != prev_sw:
                        bad_exit = (x, pb.blocks[x].get("l"))
    rep.examined(R114, pb.path + "|rollover-before-exit", sample={"found_arm": found_t, "rollover_section": prev_sw, "exit_bypassing_rollover": bad_exit})
    if found_t is None or prev_sw is None:
        raise CheckerError("process_missing_year: loop structure not recognised")
    if bad_exit:
        rep.violation(R114, pb.path + "|rollover-before-exit", "process_missing_year: the walk can stop (line %s) after reading a message without testing it for a year rollover; a December-to-January wrap right after the first message of the file leaves that message in the wrong year" % bad_exit[1])

    # R11.5: the walk may stop early only at a message strictly before --dt-after (messages exactly on the bound
    #        are inside the window and still need their year)
    R115 = rep.rule("R11.5", "the backward walk stops early only strictly before --dt-after")
    dt1 = {v["idx"]: v["name"] for v in facts.adts["s4lib::data::datetime::Result_Filter_DateTime1"]["variants"]}
    stops = []
    for x in sorted(L):
        t = pb.term(x)
        if t[0] != "switch":
            continue
        outs = [s_ for s_ in pb.succ[x] if s_ not in L and pb.term(s_)[0] != "unreachable"]
        if not outs:
            continue
        sd = decide.switch_decisions(pb, x)
        if not sd:
            continue
        for tgt, d in sd:
            if tgt not in outs:
                continue
            if d[0] == "variant" and d[1][0] == "call" and d[1][1] in ("dt_after_or_before", "sysline_dt_after_or_before"):
                stops.append(("predicate", dt1.get(d[2]), pb.blocks[x].get("l")))
            elif d[0] == "variant_not" and d[1][0] == "call" and d[1][1] in ("dt_after_or_before", "sysline_dt_after_or_before"):
                names_ = [n for i, n in dt1.items() if i not in d[2]]
                for n in names_:
                    stops.append(("predicate", n, pb.blocks[x].get("l")))
            elif d[0] == "cmp":
                roots = (d[2], d[3])
                if any(r[0] == "arg" and r[1] == 3 for r in roots):
                    # normalise to t OP A
                    op, outcome = d[1], d[4]
                    a_left = roots[0][0] == "arg" and roots[0][1] == 3
                    if a_left:
                        op = {"lt": "gt", "gt": "lt", "le": "ge", "ge": "le"}.get(op, op)
                    if not outcome:
                        op = decide.NEG[op]
                    stops.append(("compare", op, pb.blocks[x].get("l")))
    rep.examined(R115, pb.path + "|early-stop", sample={"stops_depending_on_the_after_bound": stops})
    for kind, what, line in stops:
        if kind == "predicate" and what != "OccursBefore":
            rep.violation(R115, pb.path + "|early-stop", "process_missing_year: the backward walk stops (line %s) on the verdict %s; only a message strictly before --dt-after may end it" % (line, what))
        if kind == "compare" and what != "lt":
            rep.violation(R115, pb.path + "|early-stop", "process_missing_year: the backward walk stops (line %s) when the message time is %s the --dt-after bound; messages exactly on the bound are inside the window and the tied ones before it never get their year" % (line, what))
    if not stops:
        rep.info("process_missing_year has no early stop on --dt-after (slower, not wrong)")

    # ------------------------------------------------------------ R11.8 which notations are "missing a year"
    # The missing-year pass reads the whole file backwards and keeps every message until the walk is
    # done.  It must run exactly for the notations that do not determine the year: a row has a year if
    # its year field is a 4- or 2-digit year, or if it is a Unix epoch.  SyslineReader::dt_pattern_has_year
    # is tabulated (by interpreting its MIR and that of the DTFSSet helpers it calls) over every
    # (year, epoch) combination that occurs in DATETIME_PARSE_DATAS.
    import enumeval
    R118 = rep.rule("R11.8", "dt_pattern_has_year is true exactly for rows whose notation determines the year (year field, or Unix epoch)")
    ya_ = facts.adts.get("s4lib::data::datetime::DTFS_Year")
    ea_ = facts.adts.get("s4lib::data::datetime::DTFS_Epoch")
    rows_ = facts.const("s4lib::data::datetime::DATETIME_PARSE_DATAS")
    if not ya_ or not ea_ or not rows_:
        raise CheckerError("R11.8: DTFS_Year / DTFS_Epoch / DATETIME_PARSE_DATAS not extracted")
    yidx = {v_["name"]: v_["idx"] for v_ in ya_["variants"]}
    eidx = {v_["name"]: v_["idx"] for v_ in ea_["variants"]}
    combos = {}
    for i_, r_ in enumerate(rows_):
        f_ = r_["fields"]["dtfs"]["fields"]
        combos.setdefault((f_["year"]["variant"], f_["epoch"]["variant"]), []).append(i_)
    FNy = "s4lib::readers::syslinereader::SyslineReader::dt_pattern_has_year"
    for (yv, ev), idxs in sorted(combos.items()):
        try:
            got = enumeval.eval_bool(prog, FNy, {"year": yidx[yv], "epoch": eidx[ev]})
        except enumeval.Unknown as e_:
            raise CheckerError("R11.8: dt_pattern_has_year not evaluable: %s" % e_)
        want = yv in ("Y", "y") or ev != "_none"
        rep.examined(R118, "dt_pattern_has_year|year=%s,epoch=%s" % (yv, ev), sample={"year": yv, "epoch": ev, "rows": len(idxs), "dt_pattern_has_year": got, "notation_determines_year": want})
        if got != want:
            if want:
                rep.violation(R118, "dt_pattern_has_year|year=%s,epoch=%s" % (yv, ev), "dt_pattern_has_year() is false for the %d table rows with year=%s, epoch=%s although the notation determines the year; such logs go through the missing-year pass: "
                              "the whole file is read backwards and held in memory, and for epoch rows an out-of-order line makes the pass loop forever" % (len(idxs), yv, ev))
            else:
                rep.violation(R118, "dt_pattern_has_year|year=%s,epoch=%s" % (yv, ev), "dt_pattern_has_year() is true for the %d table rows with year=%s, epoch=%s, which carry no year; their messages keep the dummy year" % (len(idxs), yv, ev))
    rep.floor("R11.8", 3)

    # ------------------------------------------------------------ R11.9 a modification time before 1970 keeps its instant
    # chrono's from_timestamp(secs, nanos) counts nanos *forward* from secs.  For a time d before the
    # epoch (d = s + f seconds) the instant is -(s+1) seconds + (1e9 - f) nanoseconds; negating the
    # seconds and passing the fraction unchanged lands up to a second late - across a year boundary for
    # an mtime in the last second of a year, which is what the year inference starts from.
    R119 = rep.rule("R11.9", "the pre-epoch branch of systemtime_to_datetime complements the sub-second part")
    STD = "s4lib::data::datetime::systemtime_to_datetime"
    bodies_ = [prog.body(STD)] + [prog.body(p_) for p_ in sorted(prog.facts.bodies) if p_.startswith(STD + "::{closure")]
    neg_calls = []
    for b_ in bodies_:
        for c in b_.live_calls():
            if c.d.endswith("::from_timestamp") and c.args:
                negd = any(x[0] == "un" or (x[0] in ("bin",) and False) for x in b_.origins(c.args[0])) or \
                    any(st_[0] == "=" and st_[2][0] == "un" and st_[2][1] == "Neg" and st_[1] == [op_local(c.args[0])] for bb_ in b_.live for st_ in b_.stmts(bb_))
                if negd:
                    raw = any(x[0] == "call" and x[2].endswith("::subsec_nanos") for x in b_.origins(c.args[1])) if len(c.args) > 1 and c.args[1][0] != "k" else False
                    neg_calls.append((b_.path, c.line, raw))
    comp = False
    pb_ = prog.body(STD)
    for bb_ in sorted(pb_.live):
        for st_ in pb_.stmts(bb_):
            if st_[0] == "=" and st_[2][0] == "bin" and st_[2][1].startswith("Sub") and pb_.eval_int(st_[2][2]) == 1000000000:
                if any(x[0] == "call" and x[2].endswith("::subsec_nanos") for x in pb_.origins(st_[2][3])):
                    comp = True
    rep.examined(R119, STD, sample={"from_timestamp_calls_with_negated_seconds": [(p_.split("::")[-1], l_, "raw fraction" if r_ else "derived") for p_, l_, r_ in neg_calls], "complement_1e9_minus_fraction_present": comp})
    manual = any(c.d.endswith("::from_timestamp") for b_ in bodies_ for c in b_.live_calls())
    if not manual:
        # the conversion is left to chrono's own From<SystemTime> (which handles times before the epoch); nothing to check
        pass
    elif not neg_calls:
        raise CheckerError("systemtime_to_datetime: from_timestamp is used but no pre-epoch branch (negated seconds) recognised")
    elif any(r_ for _, _, r_ in neg_calls) or not comp:
        rep.violation(R119, STD + "|pre-epoch", "systemtime_to_datetime: for a time before 1970 the seconds are negated but the sub-second part is passed on unchanged (no 1e9 - fraction); "
                      "an mtime of 1965-12-31T23:59:59.5Z becomes 1966-01-01T00:00:00.5Z... one second late, and every message of a year-less log is dated a year late")

    # ------------------------------------------------------------ R11.10 the backward walk goes round again only after strict progress
    # Each round of the walk searches at fo_prev, which must be strictly smaller than in the round
    # before (fo_prev_prev); when a file starts with bytes that belong to no dated message the two come
    # out *equal*, and a guard that only stops on "greater" repeats the same search forever (the worker
    # has sent FileInfo but no message, so the whole program hangs).  The guard must stop on >=.
    R1110 = rep.rule("R11.10", "the year walk repeats only when the search offset strictly decreased")
    nm_ = {i_: l_.get("name") for i_, l_ in enumerate(pb.locals)}
    guards_ = []
    for bb in sorted(pb.live):
        for st_ in pb.stmts(bb):
            if st_[0] == "=" and st_[2][0] == "bin" and st_[2][1] in ("Ge", "Gt", "Le", "Lt", "Eq", "Ne"):
                import flow as _fl11
                a_ = _fl11.named_target(pb, st_[2][2]) if st_[2][2][0] != "k" else None
                c_ = _fl11.named_target(pb, st_[2][3]) if st_[2][3][0] != "k" else None
                na, nc = nm_.get(a_), nm_.get(c_)
                if {na, nc} == {"fo_prev", "fo_prev_prev"}:
                    op_ = st_[2][1] if na == "fo_prev" else {"Ge": "Le", "Gt": "Lt", "Le": "Ge", "Lt": "Gt", "Eq": "Eq", "Ne": "Ne"}[st_[2][1]]
                    guards_.append((op_, pb.blocks[bb].get("l")))
    rep.examined(R1110, pb.path + "|progress-guard", sample={"comparisons_of_fo_prev_with_fo_prev_prev": guards_})
    if not guards_:
        raise CheckerError("process_missing_year: no comparison of the search offset with the previous one (progress guard not recognised)")
    if not any(op_ in ("Ge", "Lt") for op_, _ in guards_):
        rep.violation(R1110, pb.path + "|progress-guard", "process_missing_year: the no-progress guard compares fo_prev with fo_prev_prev using %s (line %s), so it lets the walk go round again when the offset did not move; "
                      "a year-less log whose first line is damaged (one corrupted byte in its timestamp) makes the worker search the same offset forever and the program hangs" % (guards_[0][0], guards_[0][1]))

    # ------------------------------------------------------------ R11.7
    # The backward walk re-reads a message under the earlier year after a wrap.  The end of a
    # message is found by parsing the following lines *with the same assumed year*; a line that
    # does not parse is appended as a continuation.  Whether a line parses therefore depends on
    # the assumed year ("Feb 29" under a non-leap year), while the message that begins at that
    # line may already be stored under its own (later) year.  Necessary condition: a line is
    # appended as a continuation only after the store of known message starts was consulted.
    R117 = rep.rule("R11.7", "a message re-read under another year never absorbs a line at which a stored message begins")
    fb = prog.body("s4lib::readers::syslinereader::SyslineReader::find_sysline_year")
    pushes = [c for c in fb.live_calls() if c.d == "s4lib::data::sysline::Sysline::push"]
    rpt = [c for c in pushes if c.bb in fb.reachable_after(c.bb)]
    if not rpt:
        raise CheckerError("find_sysline_year: no repeatable Sysline::push (continuation-line idiom not recognised)")
    # tests of the store of known message starts: any lookup on self.syslines / self.syslines_by_range
    # (contains_key, get(..).is_some(), range(..)) whose result controls a branch
    cks = []
    LOOKUPS = ("contains_key", "get", "get_key_value", "contains", "range", "get_mut", "first_key_value", "overlaps")
    for c in fb.live_calls():
        if c.d.split("::")[-1] in LOOKUPS and c.args:
            o = fb.origins(c.args[0], through_calls=("::deref",))
            if any(x[0] == "arg" and x[1] == 1 and ("syslines" in x[-1] or "syslines_by_range" in x[-1]) for x in o):
                # the switch it controls (directly, or through is_some/is_none/not)
                for sw in sorted(fb.live):
                    t = fb.term(sw)
                    if t[0] != "switch":
                        continue
                    so = fb.origins(t[1], through_calls=("::is_some", "::is_none", "::not", "::is_ok", "::is_err"))
                    if any(x[0] == "call" and x[1] == c.bb for x in so) or (op_local(t[1]) == c.dest[0]):
                        for tgt in set(fb.succ[sw]):
                            cks.append((c, tgt))
    for c in rpt:
        guarded = [k for k, ft in cks if fb.dominates(ft, c.bb) and k.bb in fb.reachable_after(c.bb)]
        inst = "%s|continuation-push" % fb.path
        rep.examined(R117, inst, sample={"push_line": c.line, "known_start_tests_in_same_loop": [k.line for k in guarded]})
        if not guarded:
            rep.violation(R117, inst, "find_sysline_year: a line that has no datetime under the assumed year is appended to the message (line %d) without asking whether a stored message begins there; "
                          "after a year wrap, 'Dec 31' re-read under the earlier non-leap year absorbs a following 'Feb 29' message, which is then printed with the December datetime" % c.line)

    # ------------------------------------------------------------ R11.6 (shared instant-preservation lint)
    import instant
    R116i = rep.rule("R11.6", "mtime conversion preserves the instant")
    n_sites = instant.check(prog, rep, R116i, lambda p: ('readers::syslogprocessor' in p or 'data::datetime::systemtime' in p) and '_tests' not in p, "the year taken from the modification time is read in the wrong zone")
    if n_sites < 2:
        raise CheckerError("R11.6: only %d chrono conversion sites found in scope (expected at least 2)" % n_sites)

    # ------------------------------------------------------------ R11.11 a year-less file is never dismissed because of its modification time (lift of C03 R3.9)
    # The modification time only dates the *last* message's year.  Whether the file holds messages inside
    # the window is decided from the inferred dates; a shortcut "mtime (+ slack) is before --dt-after,
    # skip the file" drops every message of a log whose mtime is months older than its newest lines
    # (copied, restored, touched, or simply still being written under an old mtime).
    import c03 as _c03b
    from common import Report as _Rep11
    R1111 = rep.rule("R11.11", "the text-log processor combines no window bound with the file's modification time (from C03 R3.9)")
    sub39 = _Rep11("C03", "quick", dict(rep.meta))
    r39_ = sub39.rule("R3.9", "lift")
    _c03b.r39(prog, sub39, r39_)
    n1111 = 0
    for k_ in sorted(sub39.rules["R3.9"]["keys"]):
        if "syslogprocessor" in k_ or "exec_syslogprocessor" in k_:
            n1111 += 1
            rep.examined(R1111, "R3.9|" + k_, sample={"rule": "R3.9", "instance": k_})
    for (rid_, key_, what_, det_) in sub39.violations:
        if "syslogprocessor" in key_ or "exec_syslogprocessor" in key_:
            rep.violation(R1111, key_.split("|", 1)[1], what_)
    if n1111 < 1:
        raise CheckerError("R11.11: no SyslogProcessor method among the R3.9 instances")

    return rep.finish(
        "Static necessary-condition check of year inference: it runs exactly for year-less patterns, before streaming, seeded by the reader's "
        "mtime (Gz/Tar: the time stored inside); streamed year-less files disable block dropping; the assumed year starts at mtime's year in "
        "the --tz-offset zone, is only ever stepped back by one under the forward-jump guards, and the rollover test lies on every way out of "
        "the backward walk after a message was read.",
        ["that the inferred dates are right for concrete logs", "the 29-February limitation", "interaction with the window's early stop"])
