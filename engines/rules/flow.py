"""Path-sensitive (disjunctive) forward dataflow over a MIR body.

The state at a block entry is a *set* of abstract states (hashable values); states are not
merged at joins, so facts that are correlated along a path (``this string was shortened`` and
``this pattern was rewritten``) stay correlated.  The abstract domain has to be finite; the
fixpoint handles loops.  Anything too large makes the caller fail closed."""
from mir import CheckerError, op_local

REF_THROUGH = ("::deref", "::deref_mut", "::as_str", "::as_mut_str", "::as_ref", "::borrow", "::as_bytes", "::as_mut")


def named_target(body, op, through=REF_THROUGH, depth=0):
    """The variable a reference operand points at: follows temporaries that are a single
    `&x`, `&mut x`, `&(*t)`, `move t` or a transparent call (deref/as_str...), and stops at the
    first local that is a user variable, an argument, or defined in some other way."""
    l = op_local(op)
    if l is None:
        return None
    seen = set()
    while l is not None and l not in seen and depth < 80:
        depth += 1
        seen.add(l)
        if 1 <= l <= body.argc or body.local_name(l):
            return l
        ds = body.defs.get(l, [])
        if len(ds) != 1:
            return l
        bb, idx, rv = ds[0]
        if idx == "call":
            c = rv
            if c.args and any(t in c.d or t in c.o for t in through):
                l = op_local(c.args[0])
                continue
            return l
        k = rv[0]
        if k in ("ref", "rawptr"):
            l = rv[2][0]
        elif k == "use" and rv[1][0] != "k":
            l = rv[1][1][0]
        elif k == "cast" and rv[2][0] != "k":
            l = rv[2][1][0]
        else:
            return l
    return l


def disjunctive(body, init, block_fn, edge_fn=None, start=0, max_states=4000):
    """Fixpoint of a set-of-states forward analysis.

    block_fn(bb, state) -> state after the block (statements and terminator effect)
    edge_fn(bb, succ, state) -> state or None (edge infeasible); optional
    Returns {bb: frozenset(states at entry)} for live blocks."""
    live = body.live
    states = {start: {init}}
    work = [start]
    total = 1
    while work:
        bb = work.pop()
        for st in list(states.get(bb, ())):
            out = block_fn(bb, st)
            for s in body.succ[bb]:
                if s not in live:
                    continue
                o2 = edge_fn(bb, s, out) if edge_fn else out
                if o2 is None:
                    continue
                cur = states.setdefault(s, set())
                if o2 not in cur:
                    cur.add(o2)
                    total += 1
                    if total > max_states:
                        raise CheckerError("%s: abstract state space exceeds %d states" % (body.path, max_states))
                    if s not in work:
                        work.append(s)
    return {k: frozenset(v) for k, v in states.items()}


def with_flags(body, block_fn):
    """Wrap a block transfer function so that states also remember the outcome of tests on plain
    bool flags (`if *has_x`), and a later test of the same flag along the same path follows only
    the consistent edge.  Returns (init_wrap, block_fn2, edge_fn2); the state is (inner, flags)."""
    import decide
    dec_cache = {}

    def decisions(bb):
        if bb not in dec_cache:
            res = {}
            t = body.term(bb)
            if t[0] == "switch":
                try:
                    sd = decide.switch_decisions(body, bb)
                except CheckerError:
                    sd = None
                if sd:
                    tg = {}
                    for tgt, d in sd:
                        tg.setdefault(tgt, []).append(d)
                    for tgt, ds in tg.items():
                        if len(ds) == 1 and ds[0][0] == "flag":
                            res[tgt] = (ds[0][1], ds[0][2])
            dec_cache[bb] = res
        return dec_cache[bb]

    def block2(bb, st):
        inner, flags = st
        out = block_fn(bb, inner)
        kill = set()
        t = body.term(bb)
        for (root, val) in flags:
            if root[0] == "call" and t[0] == "call" and len(root) > 2 and root[2] == bb:
                kill.add((root, val))
            elif root[0] == "local":
                for s_ in body.stmts(bb):
                    if s_[0] == "=" and len(s_[1]) == 1 and s_[1][0] == root[1]:
                        kill.add((root, val))
                if t[0] == "call" and t[3] == [root[1]]:
                    kill.add((root, val))
        return (out, frozenset(flags - kill) if kill else flags)

    def edge2(bb, succ, st):
        d = decisions(bb).get(succ)
        if d is None:
            return st
        root, val = d
        inner, flags = st
        if (root, not val) in flags:
            return None
        if (root, val) in flags:
            return st
        return (inner, frozenset(flags | {(root, val)}))

    return (lambda init: (init, frozenset())), block2, edge2
