"""Stage-1 byte test of block zero (SyslogProcessor::blockzero_analysis_bytes): which quantified
byte predicate leads to the FileErrNullBytes rejection, and over which prefix of the block."""
from mir import CheckerError, op_local

SP = "s4lib::readers::syslogprocessor::SyslogProcessor"


def analyze(prog):
    b = prog.body(SP + "::blockzero_analysis_bytes")
    res = []
    for c in b.live_calls():
        name = (c.o or c.d).split("::")[-1]
        if name not in ("all", "any") or "Iterator" not in (c.o + c.d):
            continue
        if c.target is None:
            continue
        t = b.term(c.target)
        if t[0] != "switch" or op_local(t[1]) != c.dest[0]:
            continue
        arms = {int(v): tb for v, tb in t[2]}
        true_t = t[3] if 0 in arms else arms.get(1)
        false_t = arms.get(0, t[3])
        # which edge builds FileErrNullBytes?

        def builds(bb):
            for x in sorted(b.reachable(bb, {true_t, false_t} - {bb})):
                for s in b.stmts(x):
                    if s[0] == "=" and s[2][0] == "agg" and isinstance(s[2][1], dict) and s[2][1].get("variant") == "FileErrNullBytes":
                        return True
            return False
        rej_true, rej_false = builds(true_t), builds(false_t)
        if rej_true == rej_false:
            continue
        # receiver chain: take(const)? over slice::iter of the block
        take = None
        chain = []
        cur = c.args[0]
        for _ in range(12):
            os_ = [o for o in b.origins(cur) if o[0] == "call"]
            if len(os_) != 1:
                break
            cc = [x for x in b.calls if x.bb == os_[0][1]][0]
            nm = (cc.o or cc.d).split("::")[-1]
            chain.append(nm)
            if nm == "take" and len(cc.args) > 1:
                a = cc.args[1]
                if a[0] == "k" and isinstance(a[2], int):
                    take = a[2]
                else:
                    for o in b.origins(a):
                        if o[0] == "const":
                            try:
                                take = int(o[1])
                            except Exception:
                                pass
            if nm == "iter" and cc.args:
                # `block[..N].iter()`: a prefix slice bounded by a constant (or min(CONST, len))
                for o2 in b.origins(cc.args[0], through_calls=("::deref", "::as_ref", "::as_slice")):
                    if o2[0] == "call" and o2[2].split("::")[-1] in ("index", "get", "get_unchecked"):
                        ic = [x for x in b.calls if x.bb == o2[1]][0]
                        for o3 in b.origins(ic.args[1]):
                            if o3[0] == "agg":
                                st_ = b.stmts(o3[1])[o3[2]]
                                kind = st_[2][1]
                                if isinstance(kind, dict) and "RangeTo" in kind.get("adt", ""):
                                    endop = st_[2][2][-1]
                                    v = b.eval_int(endop)
                                    if v is None and endop[0] != "k":
                                        for o4 in b.origins(endop):
                                            if o4[0] == "call" and o4[2].split("::")[-1] == "min":
                                                mc = [x for x in b.calls if x.bb == o4[1]][0]
                                                ks = [b.eval_int(a) for a in mc.args if b.eval_int(a) is not None]
                                                if ks:
                                                    v = min(ks)
                                            elif o4[0] == "const":
                                                try:
                                                    v = int(o4[1])
                                                except Exception:
                                                    pass
                                    if v is not None:
                                        take = v
                                        chain.append("[..%d]" % v)
            if nm == "iter" or not cc.args:
                break
            cur = cc.args[0]
        # the closure's predicate
        pred = None
        for a in c.args[1:]:
            for o in b.origins(a):
                if o[0] == "agg":
                    st = b.stmts(o[1])[o[2]]
                    kind = st[2][1]
                    cpath = kind.get("closure") if isinstance(kind, dict) else None
                    if cpath:
                        cb = prog.body(cpath, required=False)
                        if cb is not None:
                            for bb in sorted(cb.live):
                                for s in cb.stmts(bb):
                                    if s[0] == "=" and s[1] == [0] and s[2][0] == "bin" and s[2][1] in ("Eq", "Ne"):
                                        k = [x for x in (s[2][2], s[2][3]) if x[0] == "k"]
                                        if k:
                                            pred = (s[2][1], k[0][2])
        res.append({"quantifier": name, "predicate": pred, "reject_on": rej_true, "take": take, "chain": chain, "line": c.line})
    return b, res
