"""A signed integer converted to usize and used as an index must be known non-negative.

`x as usize` of a negative i16/i32 is a huge number; the bounds check that follows panics, and
the shipped profile aborts on panic.  `x < LEN` alone does not exclude negative values.
Accepted guards, each on an edge that dominates the conversion:
   0 <= x, x >= 0, x > -1, -1 < x  (any operand order), or  (A..B).contains(&x) with constant A >= 0."""
import decide
from mir import op_local

SIGNED = ("i8", "i16", "i32", "i64", "isize", "i128")


def _const_int(root):
    if root and root[0] == "const":
        try:
            return int(str(root[1]))
        except Exception:
            return None
    return None


def _nonneg_from_cmp(d, nroot):
    _, op, a, b, outcome = d
    if not outcome:
        op = decide.NEG[op]
    ca, cb = _const_int(a), _const_int(b)
    if b == nroot and ca is not None:      # ca OP n
        return (op == "le" and ca >= 0) or (op == "lt" and ca >= -1) or (op == "eq" and ca >= 0)
    if a == nroot and cb is not None:      # n OP cb
        return (op == "ge" and cb >= 0) or (op == "gt" and cb >= -1) or (op == "eq" and cb >= 0)
    return False


def _range_contains_guard(body, sw_bb, tgt, nroot):
    """switch on the result of Range::contains(&range, &x)"""
    t = body.term(sw_bb)
    l = op_local(t[1])
    if l is None:
        return False
    ds = body.defs.get(l, [])
    if len(ds) != 1 or ds[0][1] != "call":
        return False
    c = ds[0][2]
    if not (c.d.endswith("::contains") and "Range" in (c.d + (c.callee.get("self") or ""))):
        return False
    arms = {int(v): tb for v, tb in t[2]}
    true_t = t[3] if 0 in arms else arms.get(1)
    if tgt != true_t or len(c.args) < 2:
        return False
    if decide.root_of(body, c.args[1]) != nroot:
        return False
    for o in body.origins(c.args[0], through_calls=("::deref",)):
        if o[0] == "agg":
            st = body.stmts(o[1])[o[2]]
            ops = st[2][2]
            if ops:
                r0 = decide.root_of(body, ops[0]) if ops[0][0] != "k" else ("const", ops[0][2])
                v = _const_int(r0)
                if v is not None and v >= 0:
                    return True
        elif o[0] == "const":
            # a promoted constant range: {'adt': ..Range, 'fields': {'start':..}}
            s = str(o[1])
            import re
            m = re.search(r"start\W+(-?\d+)", s)
            if m and int(m.group(1)) >= 0:
                return True
    return False


def sites(prog, scope):
    out = []
    for b in prog.bodies():
        if not scope(b.path):
            continue
        for bb in sorted(b.live):
            for i, s in enumerate(b.stmts(bb)):
                if s[0] == "=" and s[2][0] == "cast" and len(s[1]) == 1 and s[2][2][0] != "k":
                    l = op_local(s[2][2])
                    if l is None or b.local_ty(l) not in SIGNED or b.local_ty(s[1][0]) != "usize":
                        continue
                    nroot = decide.root_of(b, s[2][2])
                    guards = []
                    for sw in sorted(b.live):
                        t = b.term(sw)
                        if t[0] != "switch" or not b.dominates(sw, bb) or sw == bb:
                            continue
                        try:
                            sd = decide.switch_decisions(b, sw)
                        except Exception:
                            sd = None
                        for tgt in set(b.succ[sw]):
                            if not b.dominates(tgt, bb) or len(b.pred[tgt]) != 1:
                                continue
                            for (tg2, d) in (sd or []):
                                if tg2 == tgt and d[0] == "cmp" and _nonneg_from_cmp(d, nroot):
                                    guards.append(("cmp", b.blocks[sw].get("l")))
                            if _range_contains_guard(b, sw, tgt, nroot):
                                guards.append(("range-contains", b.blocks[sw].get("l")))
                    out.append((b, bb, b.blocks[bb].get("l"), b.local_ty(l), nroot, guards))
    return out
