#!/usr/bin/env python3
import importlib
import os
import sys
import time
import traceback

sys.path.insert(0, os.path.dirname(os.path.abspath(__file__)))
import facts  # noqa: E402
import mir  # noqa: E402
from common import Report  # noqa: E402


def thorough_mutants(pid, rep):
    """Thorough tier: re-run this property's check on scratch copies of /repo with each kept
    regression for this property applied (seeded/<pid>-*/patch.diff from independent sub-agents and
    selftest/<pid>-*.patch).  The verdicts are appended to the evidence file; a regression that is
    expected to be detected but is not makes the run a checker failure (exit 2), never a VIOLATION."""
    import glob
    import json
    import subprocess
    V = facts.VERIF
    items = []
    for d in sorted(glob.glob(os.path.join(V, "seeded", pid + "-*"))):
        if os.path.isfile(os.path.join(d, "patch.diff")):
            exp = "detect"
            ef = os.path.join(d, "expect")
            if os.path.isfile(ef):
                exp = open(ef).read().split()[0]
            items.append((os.path.basename(d), os.path.join(d, "patch.diff"), exp))
    for f in sorted(glob.glob(os.path.join(V, "selftest", pid + "-*.patch"))):
        items.append((os.path.basename(f)[:-6], f, "detect"))
    res = []
    bad = 0
    for (name, patch, exp) in items:
        r = subprocess.run([os.path.join(V, "tools", "try_patch.sh"), patch, pid], stdout=subprocess.PIPE, stderr=subprocess.STDOUT, text=True)
        det = "VIOLATION property=%s" % pid in r.stdout
        err = "CHECKER-ERROR" in r.stdout
        stale = "try_patch: patch failed" in r.stdout
        verdict = "detected" if det else ("checker-error" if err else ("patch-does-not-apply" if stale else "missed"))
        if stale:
            # the tree has moved on (a later repair touched the same lines): the regression cannot be
            # replayed; reported, not counted as a failure of the check
            exp = "n/a"
        res.append({"change": name, "expected": exp, "verdict": verdict})
        print("%s thorough: regression %-40s expected=%-6s %s" % (pid, name, exp, verdict))
        if exp == "detect" and not det:
            bad += 1
    evp = os.path.join(os.environ.get("VERIF_EVIDENCE_DIR") or os.path.join(V, "evidence"), pid + ".json")
    try:
        ev = json.load(open(evp))
        ev["coverage"]["regressions_replayed"] = res
        ev["coverage"]["evaluations"] += len(res)
        ev["wall_s"] = round(ev.get("wall_s", 0) + 0.0, 2)
        json.dump(ev, open(evp, "w"), indent=1)
    except Exception as e:  # evidence must stay valid
        print("%s thorough: could not extend evidence: %s" % (pid, e))
    if bad:
        print("CHECKER-ERROR property=%s reason=%d regression(s) that this check is expected to detect were not detected" % (pid, bad))
        return 2
    return 0


def main(argv):
    if not argv:
        print(__doc__ or "usage: check <Cxx> [--tier quick|thorough] [--replay path]")
        return 2
    tier = os.environ.get("VERIF_TIER", "quick")
    replay = None
    args = []
    i = 0
    while i < len(argv):
        a = argv[i]
        if a == "--tier":
            tier = argv[i + 1]; i += 2; continue
        if a == "--replay":
            replay = argv[i + 1]; i += 2; continue
        args.append(a); i += 1
    if args[0] in ("--dump", "--list", "--const"):
        f = facts.load()
        prog = mir.Program(f)
        pat = args[1]
        if args[0] == "--const":
            import json
            for p, c in f.consts.items():
                if pat in p:
                    print(p, c["ty"]); print(json.dumps(c["value"], indent=None)[: int(args[2]) if len(args) > 2 else 2000])
            return 0
        for p in sorted(f.bodies):
            if pat in p:
                if args[0] == "--list":
                    print(p, f.bodies[p]["span"], len(f.bodies[p]["blocks"]))
                else:
                    b = prog.body(p)
                    blocks = None
                    if len(args) > 2:
                        blocks = set(int(x) for x in args[2].split(","))
                    print(b.dump(blocks=blocks))
        return 0
    pid = args[0]
    if tier not in ("quick", "thorough"):
        tier = "quick"
    try:
        mod = importlib.import_module(pid.lower())
    except ImportError:
        print("CHECKER-ERROR property=%s reason=no rule module" % pid)
        return 2
    try:
        f = facts.load()
        prog = mir.Program(f)
        rep = Report(pid, tier, dict(f.meta))
        print("%s facts: %s, tree %s, %s (%.1f s), bodies %d" % (
            pid, f.meta["profile"], f.meta["tree_sha256"][:12], f.meta["facts"], f.meta["extract_s"], len(f.bodies)))
        rc = mod.run(prog, rep, tier)
        if tier == "thorough" and rc == 0 and not replay and os.environ.get("VERIF_REPO") is None:
            rc = thorough_mutants(pid, rep) or rc
        if replay:
            import json
            want = json.load(open(replay)).get("key")
            hit = [v for v in rep.violations if v[1] == want]
            print("replay: key %s %s on the current tree" % (want, "STILL FIRES" if hit else "does not fire"))
            for v in hit:
                print("  ", v[2])
        return rc
    except mir.CheckerError as e:
        try:
            if rep.violations:
                # a recognised violation was already established before an anchor went missing:
                # report it (the later anchor failure is usually a consequence of the same edit)
                print("%s note: rule engine stopped early: %s" % (pid, e))
                if rep.finish("partial run (stopped early: %s)" % e, []):
                    return 1
                # only known findings so far: the run is incomplete, which is a checker error, not a verdict
        except NameError:
            pass
        print("CHECKER-ERROR property=%s reason=%s" % (pid, e))
        return 2
    except Exception as e:  # fail closed, visibly
        traceback.print_exc()
        print("CHECKER-ERROR property=%s reason=internal error %r" % (pid, e))
        return 2


if __name__ == "__main__":
    sys.exit(main(sys.argv[1:]))
