"""Swapped same-typed arguments: the caller passes its variable `b` for the callee's parameter `a`
and its variable `a` for the parameter `b`, both of the same type (so the compiler cannot object).
Names are the developer's stated belief about what a value is; an exact cross-over of two names is
not a coincidence of naming.  Only exact swaps of *named* locals are reported."""
from mir import op_place


def _named(body, op, depth=0):
    """name of the user variable an argument operand is (a copy / reborrow of)"""
    pl = op_place(op)
    if pl is None:
        return None
    l = pl[0]
    n = body.local_name(l)
    if n and all(e == "*" for e in pl[1:]):
        return n
    if n or depth > 4:
        return None
    ds = body.defs.get(l, [])
    if len(ds) != 1 or ds[0][1] == "call":
        return None
    rv = ds[0][2]
    if rv[0] == "use":
        return _named(body, rv[1], depth + 1)
    if rv[0] == "ref" and all(e == "*" for e in rv[2][1:]):
        return _named(body, ("cp", rv[2]), depth + 1)
    return None


def scan(prog):
    """yields dicts for every call of a crate function that passes >= 2 named locals to same-typed parameters"""
    res = []
    for b in prog.bodies():
        p = b.path
        if not (p.startswith("s4::") or p.startswith("s4lib::")) or "_tests" in p:
            continue
        for c in b.live_calls():
            if not (c.d.startswith("s4::") or c.d.startswith("s4lib::")):
                continue
            cb = prog.body(c.d, required=False)
            if cb is None or cb.argc != len(c.args) or cb.argc < 2:
                continue
            pn = [cb.local_name(i + 1) for i in range(cb.argc)]
            pt = [cb.local_ty(i + 1) for i in range(cb.argc)]
            an = [_named(b, a) for a in c.args]
            pairs = []
            same = 0
            for i in range(cb.argc):
                for j in range(i + 1, cb.argc):
                    if pt[i] != pt[j] or not pn[i] or not pn[j] or pn[i] == pn[j]:
                        continue
                    same += 1
                    if an[i] == pn[j] and an[j] == pn[i]:
                        pairs.append((i, j, pn[i], pn[j], pt[i]))
            if same:
                res.append({"caller": p, "callee": c.d, "line": c.line, "same_typed_parameter_pairs": same, "swapped": pairs})
    return res
