//! s4facts: rustc_private fact extractor used as RUSTC_WORKSPACE_WRAPPER.
//!
//! For each workspace crate compiled by cargo it writes `$S4FACTS_OUT/<crate>.json` with
//! the MIR of every body (resolved callees, typed places, evaluated constants), ADT
//! definitions with layouts, and const-evaluated values of consts and statics.
#![feature(rustc_private)]
#![allow(clippy::all)]
extern crate rustc_abi;
extern crate rustc_driver;
extern crate rustc_hir;
extern crate rustc_interface;
extern crate rustc_middle;
extern crate rustc_span;

mod json;
use json::{bytes_json, J};

use rustc_abi::{FieldIdx, Size, VariantIdx};
use rustc_driver::Compilation;
use rustc_hir::def::DefKind;
use rustc_hir::def_id::DefId;
use rustc_interface::interface::Compiler;
use rustc_middle::mir::interpret::{AllocId, GlobalAlloc, Scalar};
use rustc_middle::mir::{
    self, AggregateKind, BasicBlock, Body, ConstValue, Operand, Place, PlaceElem, Rvalue,
    StatementKind, TerminatorKind,
};
use rustc_middle::ty::{self, Ty, TyCtxt, TypingEnv};
use rustc_span::Span;

struct Cx<'tcx> {
    tcx: TyCtxt<'tcx>,
    krate: String,
}

impl<'tcx> Cx<'tcx> {
    fn fix(&self, s: String) -> String {
        // local paths are printed with a `crate::` prefix (with_crate_prefix); make them absolute
        if s.contains("crate::") {
            s.replace("crate::", &format!("{}::", self.krate))
        } else {
            s
        }
    }
    fn path(&self, did: DefId) -> String {
        self.fix(self.tcx.def_path_str(did))
    }
    fn ty(&self, t: Ty<'tcx>) -> String {
        self.fix(format!("{}", t))
    }
    fn span(&self, sp: Span) -> String {
        let sm = self.tcx.sess.source_map();
        let lo = sm.lookup_char_pos(sp.lo());
        let name = format!("{}", lo.file.name.prefer_local_unconditionally());
        format!("{}:{}:{}", name, lo.line, lo.col.0 + 1)
    }

    // ---------------------------------------------------------------- places / operands

    fn place(&self, body: &Body<'tcx>, p: &Place<'tcx>) -> J {
        let tcx = self.tcx;
        let mut v = vec![J::Int(p.local.as_usize() as i128)];
        let mut pty = mir::PlaceTy::from_ty(body.local_decls[p.local].ty);
        for elem in p.projection.iter() {
            let j = match elem {
                PlaceElem::Deref => J::s("*"),
                PlaceElem::Field(idx, _fty) => {
                    let name = self.field_name(pty, idx);
                    J::Arr(vec![J::s("."), J::Int(idx.as_usize() as i128), J::s(name)])
                }
                PlaceElem::Index(l) => J::Arr(vec![J::s("[]"), J::Int(l.as_usize() as i128)]),
                PlaceElem::ConstantIndex { offset, min_length, from_end } => J::Arr(vec![
                    J::s("[c]"),
                    J::Int(offset as i128),
                    J::Int(min_length as i128),
                    J::Bool(from_end),
                ]),
                PlaceElem::Subslice { from, to, from_end } => J::Arr(vec![
                    J::s("[..]"),
                    J::Int(from as i128),
                    J::Int(to as i128),
                    J::Bool(from_end),
                ]),
                PlaceElem::Downcast(name, vidx) => {
                    let n = match name {
                        Some(s) => s.to_string(),
                        None => format!("#{}", vidx.as_usize()),
                    };
                    J::Arr(vec![J::s("as"), J::s(n), J::Int(vidx.as_usize() as i128)])
                }
                PlaceElem::OpaqueCast(_) => J::s("opaque"),
                PlaceElem::UnwrapUnsafeBinder(_) => J::s("unwrap_binder"),
            };
            v.push(j);
            pty = pty.projection_ty(tcx, elem);
        }
        J::Arr(v)
    }

    fn field_name(&self, pty: mir::PlaceTy<'tcx>, idx: FieldIdx) -> String {
        match pty.ty.kind() {
            ty::Adt(adt, _) => {
                let vidx = pty.variant_index.unwrap_or(VariantIdx::from_u32(0));
                if adt.is_enum() && pty.variant_index.is_none() {
                    return format!("{}", idx.as_usize());
                }
                let var = adt.variant(vidx);
                match var.fields.get(idx) {
                    Some(f) => f.name.to_string(),
                    None => format!("{}", idx.as_usize()),
                }
            }
            _ => format!("{}", idx.as_usize()),
        }
    }

    fn operand(&self, body: &Body<'tcx>, owner: DefId, op: &Operand<'tcx>) -> J {
        match op {
            Operand::Copy(p) => J::Arr(vec![J::s("cp"), self.place(body, p)]),
            Operand::Move(p) => J::Arr(vec![J::s("mv"), self.place(body, p)]),
            Operand::Constant(c) => {
                let ty = c.const_.ty();
                let val = self.const_operand(owner, c);
                J::Arr(vec![J::s("k"), J::s(self.ty(ty)), val])
            }
            #[allow(unreachable_patterns)]
            _ => J::Arr(vec![J::s("?op"), J::s(format!("{:?}", op))]),
        }
    }

    fn const_operand(&self, owner: DefId, c: &mir::ConstOperand<'tcx>) -> J {
        let tcx = self.tcx;
        let ty = c.const_.ty();
        if let ty::FnDef(did, args) = ty.kind() {
            return J::obj(vec![
                ("fn", J::s(self.path(*did))),
                ("f", J::s(self.fix(tcx.def_path_str_with_args(*did, args)))),
            ]);
        }
        if let ty::Closure(did, _) = ty.kind() {
            return J::obj(vec![("closure", J::s(self.path(*did)))]);
        }
        let env = TypingEnv::post_analysis(tcx, owner);
        match c.const_.eval(tcx, env, c.span) {
            Ok(cv) => self.val_to_json(cv, ty, 0),
            Err(_) => J::obj(vec![("uneval", J::s(format!("{}", c.const_)))]),
        }
    }

    // ---------------------------------------------------------------- const values

    fn get_alloc(&self, id: AllocId) -> Option<mir::interpret::ConstAllocation<'tcx>> {
        match self.tcx.try_get_global_alloc(id)? {
            GlobalAlloc::Memory(a) => Some(a),
            GlobalAlloc::Static(did) => self.tcx.eval_static_initializer(did).ok(),
            _ => None,
        }
    }

    fn read_bytes(&self, id: AllocId, off: Size, len: u64) -> Option<Vec<u8>> {
        let a = self.get_alloc(id)?;
        let a = a.inner();
        let s = off.bytes() as usize;
        let e = s.checked_add(len as usize)?;
        if e > a.len() {
            return None;
        }
        Some(a.inspect_with_uninit_and_ptr_outside_interpreter(s..e).to_vec())
    }

    fn read_uint(&self, id: AllocId, off: Size, len: u64) -> Option<u128> {
        let b = self.read_bytes(id, off, len)?;
        let mut v: u128 = 0;
        for (i, x) in b.iter().enumerate() {
            v |= (*x as u128) << (8 * i);
        }
        Some(v)
    }

    fn read_ptr(&self, id: AllocId, off: Size) -> Option<(AllocId, Size)> {
        let a = self.get_alloc(id)?;
        let prov = *a.inner().provenance().ptrs().get(&off)?;
        let addend = self.read_uint(id, off, 8)? as u64;
        Some((prov.alloc_id(), Size::from_bytes(addend)))
    }

    fn layout_size(&self, ty: Ty<'tcx>) -> Option<u64> {
        let env = TypingEnv::fully_monomorphized();
        self.tcx.layout_of(env.as_query_input(ty)).ok().map(|l| l.size.bytes())
    }

    fn int_json(&self, ty: Ty<'tcx>, bits: u128, size: u64) -> J {
        match ty.kind() {
            ty::Bool => J::Bool(bits != 0),
            ty::Char => J::s(char::from_u32(bits as u32).map(|c| c.to_string()).unwrap_or_default()),
            ty::Int(_) => {
                let shift = 128 - size * 8;
                let v = ((bits << shift) as i128) >> shift;
                J::Int(v)
            }
            ty::Uint(_) => {
                if bits > i128::MAX as u128 {
                    J::s(format!("{}", bits))
                } else {
                    J::Int(bits as i128)
                }
            }
            ty::Float(_) => J::obj(vec![("float_bits", J::s(format!("{}", bits)))]),
            _ => J::Int(bits as i128),
        }
    }

    fn val_to_json(&self, cv: ConstValue, ty: Ty<'tcx>, depth: usize) -> J {
        let tcx = self.tcx;
        if depth > 12 {
            return J::obj(vec![("deep", J::s(self.ty(ty)))]);
        }
        match ty.kind() {
            ty::Bool | ty::Char | ty::Int(_) | ty::Uint(_) | ty::Float(_) => {
                let size = self.layout_size(ty).unwrap_or(0);
                match cv {
                    ConstValue::Scalar(Scalar::Int(i)) => {
                        let bits = i.to_bits(i.size());
                        self.int_json(ty, bits, size)
                    }
                    ConstValue::Indirect { alloc_id, offset } => match self.read_uint(alloc_id, offset, size) {
                        Some(b) => self.int_json(ty, b, size),
                        None => J::Null,
                    },
                    _ => J::Null,
                }
            }
            ty::Ref(_, inner, _) | ty::RawPtr(inner, _) => {
                let inner = *inner;
                let is_bytes = match inner.kind() {
                    ty::Str => true,
                    ty::Slice(e) => matches!(e.kind(), ty::Uint(ty::UintTy::U8)),
                    _ => false,
                };
                if is_bytes {
                    if let Some(b) = cv.try_get_slice_bytes_for_diagnostics(tcx) {
                        return bytes_json(b);
                    }
                    if let ConstValue::Indirect { alloc_id, offset } = cv {
                        if let Some((a, o)) = self.read_ptr(alloc_id, offset) {
                            if let Some(len) = self.read_uint(alloc_id, offset + Size::from_bytes(8), 8) {
                                if let Some(b) = self.read_bytes(a, o, len as u64) {
                                    return bytes_json(&b);
                                }
                            }
                        }
                    }
                    return J::obj(vec![("display", J::s(format!("{}", mir::Const::Val(cv, ty))))]);
                }
                if let ty::Slice(elem) = inner.kind() {
                    // fat pointer to a slice of T, stored in memory
                    if let ConstValue::Indirect { alloc_id, offset } = cv {
                        if let (Some((a, o)), Some(len), Some(stride)) = (
                            self.read_ptr(alloc_id, offset),
                            self.read_uint(alloc_id, offset + Size::from_bytes(8), 8),
                            self.layout_size(*elem),
                        ) {
                            let mut v = Vec::new();
                            for i in 0..(len as u64) {
                                let e = ConstValue::Indirect { alloc_id: a, offset: o + Size::from_bytes(i * stride) };
                                v.push(self.val_to_json(e, *elem, depth + 1));
                            }
                            return J::Arr(v);
                        }
                    }
                    return J::obj(vec![("display", J::s(format!("{}", mir::Const::Val(cv, ty))))]);
                }
                // thin pointer
                let target = match cv {
                    ConstValue::Scalar(Scalar::Ptr(p, _)) => {
                        let (prov, off) = p.prov_and_relative_offset();
                        Some((prov.alloc_id(), off))
                    }
                    ConstValue::Indirect { alloc_id, offset } => self.read_ptr(alloc_id, offset),
                    _ => None,
                };
                match target {
                    Some((a, o)) => match tcx.try_get_global_alloc(a) {
                        Some(GlobalAlloc::Function { instance }) => {
                            J::obj(vec![("fn", J::s(self.path(instance.def_id())))])
                        }
                        _ => {
                            if let ty::Array(e, n) = inner.kind() {
                                if matches!(e.kind(), ty::Uint(ty::UintTy::U8)) {
                                    if let Some(n) = n.try_to_target_usize(tcx) {
                                        if let Some(b) = self.read_bytes(a, o, n) {
                                            return bytes_json(&b);
                                        }
                                    }
                                }
                            }
                            self.val_to_json(ConstValue::Indirect { alloc_id: a, offset: o }, inner, depth + 1)
                        }
                    },
                    None => J::obj(vec![("display", J::s(format!("{}", mir::Const::Val(cv, ty))))]),
                }
            }
            ty::FnPtr(..) => {
                let target = match cv {
                    ConstValue::Scalar(Scalar::Ptr(p, _)) => {
                        let (prov, _off) = p.prov_and_relative_offset();
                        Some(prov.alloc_id())
                    }
                    ConstValue::Indirect { alloc_id, offset } => self.read_ptr(alloc_id, offset).map(|x| x.0),
                    _ => None,
                };
                if let Some(a) = target {
                    if let Some(GlobalAlloc::Function { instance }) = tcx.try_get_global_alloc(a) {
                        return J::obj(vec![("fn", J::s(self.path(instance.def_id())))]);
                    }
                }
                J::Null
            }
            ty::Array(..) | ty::Tuple(..) | ty::Adt(..) => {
                if let ty::Tuple(ts) = ty.kind() {
                    if ts.is_empty() {
                        return J::Arr(vec![]);
                    }
                }
                match tcx.try_destructure_mir_constant_for_user_output(cv, ty) {
                    Some(d) => {
                        let fields: Vec<J> =
                            d.fields.iter().map(|(fcv, fty)| self.val_to_json(*fcv, *fty, depth + 1)).collect();
                        match ty.kind() {
                            ty::Adt(adt, _) => {
                                let vidx = d.variant.unwrap_or(VariantIdx::from_u32(0));
                                let var = adt.variant(vidx);
                                let mut o = vec![("adt".to_string(), J::s(self.path(adt.did())))];
                                if adt.is_enum() {
                                    o.push(("variant".to_string(), J::s(var.name.to_string())));
                                    o.push(("vidx".to_string(), J::Int(vidx.as_usize() as i128)));
                                }
                                let mut fo = Vec::new();
                                for (i, f) in fields.into_iter().enumerate() {
                                    let name = var
                                        .fields
                                        .get(FieldIdx::from_usize(i))
                                        .map(|f| f.name.to_string())
                                        .unwrap_or(format!("{}", i));
                                    fo.push((name, f));
                                }
                                o.push(("fields".to_string(), J::Obj(fo)));
                                J::Obj(o)
                            }
                            _ => J::Arr(fields),
                        }
                    }
                    None => J::obj(vec![("display", J::s(format!("{}", mir::Const::Val(cv, ty))))]),
                }
            }
            ty::FnDef(did, _) => J::obj(vec![("fn", J::s(self.path(*did)))]),
            _ => J::obj(vec![("display", J::s(format!("{}", mir::Const::Val(cv, ty))))]),
        }
    }

    // ---------------------------------------------------------------- rvalues / statements

    fn rvalue(&self, body: &Body<'tcx>, owner: DefId, rv: &Rvalue<'tcx>) -> J {
        let tcx = self.tcx;
        match rv {
            Rvalue::Use(op, _) => J::Arr(vec![J::s("use"), self.operand(body, owner, op)]),
            Rvalue::Repeat(op, n) => {
                J::Arr(vec![J::s("repeat"), self.operand(body, owner, op), J::s(format!("{}", n))])
            }
            Rvalue::Ref(_, bk, p) => {
                let m = match bk {
                    mir::BorrowKind::Shared => "shared",
                    mir::BorrowKind::Fake(_) => "fake",
                    mir::BorrowKind::Mut { .. } => "mut",
                };
                J::Arr(vec![J::s("ref"), J::s(m), self.place(body, p)])
            }
            Rvalue::ThreadLocalRef(did) => J::Arr(vec![J::s("tls"), J::s(self.path(*did))]),
            Rvalue::RawPtr(k, p) => J::Arr(vec![J::s("rawptr"), J::s(format!("{:?}", k)), self.place(body, p)]),
            Rvalue::Cast(kind, op, ty) => J::Arr(vec![
                J::s("cast"),
                J::s(format!("{:?}", kind)),
                self.operand(body, owner, op),
                J::s(self.ty(*ty)),
            ]),
            Rvalue::BinaryOp(op, ab) => J::Arr(vec![
                J::s("bin"),
                J::s(format!("{:?}", op)),
                self.operand(body, owner, &ab.0),
                self.operand(body, owner, &ab.1),
            ]),
            Rvalue::UnaryOp(op, a) => {
                J::Arr(vec![J::s("un"), J::s(format!("{:?}", op)), self.operand(body, owner, a)])
            }
            Rvalue::Discriminant(p) => J::Arr(vec![J::s("discr"), self.place(body, p)]),
            Rvalue::Aggregate(kind, ops) => {
                let k = match &**kind {
                    AggregateKind::Array(t) => J::obj(vec![("array", J::s(self.ty(*t)))]),
                    AggregateKind::Tuple => J::s("tuple"),
                    AggregateKind::Adt(did, vidx, _args, _, active) => {
                        let adt = tcx.adt_def(*did);
                        let var = adt.variant(*vidx);
                        let mut names: Vec<J> = var.fields.iter().map(|f| J::s(f.name.to_string())).collect();
                        if let Some(a) = active {
                            names = vec![names[a.as_usize()].clone()];
                        }
                        J::obj(vec![
                            ("adt", J::s(self.path(*did))),
                            ("variant", J::s(var.name.to_string())),
                            ("vidx", J::Int(vidx.as_usize() as i128)),
                            ("fields", J::Arr(names)),
                        ])
                    }
                    AggregateKind::Closure(did, _) => J::obj(vec![("closure", J::s(self.path(*did)))]),
                    AggregateKind::Coroutine(did, _) => J::obj(vec![("coroutine", J::s(self.path(*did)))]),
                    AggregateKind::CoroutineClosure(did, _) => J::obj(vec![("coroutine_closure", J::s(self.path(*did)))]),
                    AggregateKind::RawPtr(t, _) => J::obj(vec![("rawptr", J::s(self.ty(*t)))]),
                };
                let fields: Vec<J> = ops.iter().map(|o| self.operand(body, owner, o)).collect();
                J::Arr(vec![J::s("agg"), k, J::Arr(fields)])
            }
            Rvalue::CopyForDeref(p) => J::Arr(vec![J::s("use"), J::Arr(vec![J::s("cp"), self.place(body, p)])]),
            Rvalue::WrapUnsafeBinder(op, _) => J::Arr(vec![J::s("use"), self.operand(body, owner, op)]),
            #[allow(unreachable_patterns)]
            other => J::Arr(vec![J::s("?rv"), J::s(format!("{:?}", other))]),
        }
    }

    fn callee(&self, body: &Body<'tcx>, owner: DefId, func: &Operand<'tcx>) -> J {
        let tcx = self.tcx;
        if let Some((cdid, args)) = func.const_fn_def() {
            let env = TypingEnv::post_analysis(tcx, owner);
            let orig = self.path(cdid);
            let mut o = vec![("o", J::s(orig))];
            let ga: Vec<J> = args.iter().map(|a| J::s(self.fix(format!("{}", a)))).collect();
            o.push(("ga", J::Arr(ga)));
            match ty::Instance::try_resolve(tcx, env, cdid, args) {
                Ok(Some(inst)) => {
                    let rd = inst.def_id();
                    o.push(("d", J::s(self.path(rd))));
                    o.push(("f", J::s(self.fix(tcx.def_path_str_with_args(rd, inst.args)))));
                    let ik = match inst.def {
                        ty::InstanceKind::Item(_) => None,
                        ty::InstanceKind::Virtual(..) => Some("virtual"),
                        ty::InstanceKind::ClosureOnceShim { .. } => Some("closure_once_shim"),
                        ty::InstanceKind::FnPtrShim(..) => Some("fnptr_shim"),
                        ty::InstanceKind::DropGlue(..) => Some("drop_glue"),
                        ty::InstanceKind::CloneShim(..) => Some("clone_shim"),
                        ty::InstanceKind::Intrinsic(..) => Some("intrinsic"),
                        _ => Some("other"),
                    };
                    if let Some(k) = ik {
                        o.push(("ik", J::s(k)));
                    }
                    if matches!(tcx.def_kind(rd), DefKind::Closure) {
                        o.push(("closure", J::Bool(true)));
                    }
                }
                _ => {
                    o.push(("d", J::s(self.path(cdid))));
                    o.push(("f", J::s(self.fix(tcx.def_path_str_with_args(cdid, args)))));
                    o.push(("unresolved", J::Bool(true)));
                }
            }
            if let Some(tr) = tcx.trait_of_assoc(cdid) {
                o.push(("trait", J::s(self.path(tr))));
                if let Some(self_ty) = args.types().next() {
                    o.push(("self", J::s(self.ty(self_ty))));
                }
            } else if let Some(imp) = tcx.inherent_impl_of_assoc(cdid) {
                let st = tcx.type_of(imp).instantiate(tcx, args).skip_norm_wip();
                o.push(("self", J::s(self.ty(st))));
            }
            J::Obj(o.into_iter().map(|(k, v)| (k.to_string(), v)).collect())
        } else {
            J::obj(vec![("indirect", self.operand(body, owner, func))])
        }
    }

    fn body(&self, did: DefId) -> J {
        let tcx = self.tcx;
        let body: &Body<'tcx> = tcx.optimized_mir(did);
        let kind = tcx.def_kind(did);
        let mut o: Vec<(&str, J)> = Vec::new();
        o.push(("path", J::s(self.path(did))));
        o.push((
            "kind",
            J::s(match kind {
                DefKind::Closure => "closure",
                DefKind::AssocFn => "method",
                _ => "fn",
            }),
        ));
        if matches!(kind, DefKind::Closure) {
            let root = tcx.typeck_root_def_id(did);
            o.push(("root", J::s(self.path(root))));
            o.push(("parent", J::s(self.path(tcx.parent(did)))));
        }
        o.push(("span", J::s(self.span(body.span))));
        o.push(("argc", J::Int(body.arg_count as i128)));
        // locals
        let mut names: Vec<Option<String>> = vec![None; body.local_decls.len()];
        let mut upvars: Vec<J> = Vec::new();
        for vdi in body.var_debug_info.iter() {
            if let mir::VarDebugInfoContents::Place(p) = &vdi.value {
                if p.projection.is_empty() {
                    if names[p.local.as_usize()].is_none() {
                        names[p.local.as_usize()] = Some(vdi.name.to_string());
                    }
                } else {
                    upvars.push(J::Arr(vec![J::s(vdi.name.to_string()), self.place(body, p)]));
                }
            }
        }
        let locals: Vec<J> = body
            .local_decls
            .iter_enumerated()
            .map(|(l, d)| {
                let mut v = vec![("ty", J::s(self.ty(d.ty)))];
                if let Some(n) = &names[l.as_usize()] {
                    v.push(("name", J::s(n.clone())));
                }
                J::obj(v)
            })
            .collect();
        o.push(("locals", J::Arr(locals)));
        if !upvars.is_empty() {
            o.push(("upvars", J::Arr(upvars)));
        }
        // blocks
        let mut blocks = Vec::new();
        for (_bb, data) in body.basic_blocks.iter_enumerated() {
            let mut stmts = Vec::new();
            for st in data.statements.iter() {
                match &st.kind {
                    StatementKind::Assign(b) => {
                        let (p, rv) = &**b;
                        stmts.push(J::Arr(vec![
                            J::s("="),
                            self.place(body, p),
                            self.rvalue(body, did, rv),
                            J::Int(self.line(st.source_info.span) as i128),
                        ]));
                    }
                    StatementKind::SetDiscriminant { place, variant_index } => {
                        stmts.push(J::Arr(vec![
                            J::s("setdiscr"),
                            self.place(body, place),
                            J::Int(variant_index.as_usize() as i128),
                        ]));
                    }
                    StatementKind::Intrinsic(i) => {
                        stmts.push(J::Arr(vec![J::s("intrinsic"), J::s(format!("{:?}", i))]));
                    }
                    _ => {}
                }
            }
            let term = data.terminator();
            let bbj = |b: &BasicBlock| J::Int(b.as_usize() as i128);
            let t = match &term.kind {
                TerminatorKind::Goto { target } => J::Arr(vec![J::s("goto"), bbj(target)]),
                TerminatorKind::SwitchInt { discr, targets } => {
                    let mut arms = Vec::new();
                    for (v, b) in targets.iter() {
                        let vj = if v > i128::MAX as u128 { J::s(format!("{}", v)) } else { J::Int(v as i128) };
                        arms.push(J::Arr(vec![vj, bbj(&b)]));
                    }
                    let dty = discr.ty(&body.local_decls, tcx);
                    J::Arr(vec![
                        J::s("switch"),
                        self.operand(body, did, discr),
                        J::Arr(arms),
                        bbj(&targets.otherwise()),
                        J::s(self.ty(dty)),
                    ])
                }
                TerminatorKind::Return => J::Arr(vec![J::s("ret")]),
                TerminatorKind::Unreachable => J::Arr(vec![J::s("unreachable")]),
                TerminatorKind::UnwindResume => J::Arr(vec![J::s("resume")]),
                TerminatorKind::UnwindTerminate(_) => J::Arr(vec![J::s("terminate")]),
                TerminatorKind::Drop { place, target, .. } => {
                    let pty = place.ty(&body.local_decls, tcx).ty;
                    J::Arr(vec![J::s("drop"), self.place(body, place), bbj(target), J::s(self.ty(pty))])
                }
                TerminatorKind::Call { func, args, destination, target, fn_span, .. } => {
                    let a: Vec<J> = args.iter().map(|s| self.operand(body, did, &s.node)).collect();
                    let aty: Vec<J> =
                        args.iter().map(|s| J::s(self.ty(s.node.ty(&body.local_decls, tcx)))).collect();
                    let mut c = self.callee(body, did, func);
                    if let J::Obj(ref mut v) = c {
                        v.push(("aty".to_string(), J::Arr(aty)));
                        v.push(("line".to_string(), J::Int(self.line(*fn_span) as i128)));
                        if fn_span.from_expansion() {
                            v.push(("exp".to_string(), J::Bool(true)));
                        }
                    }
                    J::Arr(vec![
                        J::s("call"),
                        c,
                        J::Arr(a),
                        self.place(body, destination),
                        match target {
                            Some(t) => bbj(t),
                            None => J::Null,
                        },
                    ])
                }
                TerminatorKind::TailCall { func, args, .. } => {
                    let a: Vec<J> = args.iter().map(|s| self.operand(body, did, &s.node)).collect();
                    J::Arr(vec![J::s("tailcall"), self.callee(body, did, func), J::Arr(a)])
                }
                TerminatorKind::Assert { cond, expected, target, msg, .. } => J::Arr(vec![
                    J::s("assert"),
                    self.operand(body, did, cond),
                    J::Bool(*expected),
                    bbj(target),
                    J::s(format!("{:?}", msg).chars().take(60).collect::<String>()),
                ]),
                TerminatorKind::FalseEdge { real_target, .. } => J::Arr(vec![J::s("goto"), bbj(real_target)]),
                TerminatorKind::FalseUnwind { real_target, .. } => J::Arr(vec![J::s("goto"), bbj(real_target)]),
                other => J::Arr(vec![J::s("?term"), J::s(format!("{:?}", other).chars().take(80).collect::<String>())]),
            };
            let mut bo = vec![("s", J::Arr(stmts)), ("t", t), ("l", J::Int(self.line(term.source_info.span) as i128))];
            if data.is_cleanup {
                bo.push(("cleanup", J::Bool(true)));
            }
            blocks.push(J::obj(bo));
        }
        o.push(("blocks", J::Arr(blocks)));
        J::obj(o)
    }

    fn line(&self, sp: Span) -> usize {
        // line of the outermost (user-written) call site
        let sp = sp.source_callsite();
        let sm = self.tcx.sess.source_map();
        sm.lookup_char_pos(sp.lo()).line
    }

    // ---------------------------------------------------------------- ADTs

    fn adt(&self, did: DefId) -> J {
        let tcx = self.tcx;
        let adt = tcx.adt_def(did);
        let mut o = vec![("path", J::s(self.path(did)))];
        o.push(("kind", J::s(if adt.is_enum() { "enum" } else if adt.is_union() { "union" } else { "struct" })));
        let generic = tcx.generics_of(did).requires_monomorphization(tcx);
        let mut variants = Vec::new();
        for (vidx, var) in adt.variants().iter_enumerated() {
            let mut fields = Vec::new();
            for f in var.fields.iter() {
                let fty = tcx.type_of(f.did).instantiate_identity().skip_norm_wip();
                fields.push(J::obj(vec![("name", J::s(f.name.to_string())), ("ty", J::s(self.ty(fty)))]));
            }
            let mut vo = vec![
                ("name", J::s(var.name.to_string())),
                ("idx", J::Int(vidx.as_usize() as i128)),
                ("fields", J::Arr(fields)),
            ];
            if adt.is_enum() {
                let d = adt.discriminant_for_variant(tcx, vidx);
                vo.push(("discr", J::s(format!("{}", d.val))));
            }
            variants.push(J::obj(vo));
        }
        o.push(("variants", J::Arr(variants)));
        if !generic {
            let ty = tcx.type_of(did).instantiate_identity().skip_norm_wip();
            let has_lt = tcx.generics_of(did).own_params.len() > 0;
            if !has_lt {
                let env = TypingEnv::fully_monomorphized();
                if let Ok(l) = tcx.layout_of(env.as_query_input(ty)) {
                    o.push(("size", J::Int(l.size.bytes() as i128)));
                    o.push(("align", J::Int(l.align.abi.bytes() as i128)));
                    if adt.is_struct() {
                        let n = adt.non_enum_variant().fields.len();
                        let mut offs = Vec::new();
                        for i in 0..n {
                            offs.push(J::Int(l.fields.offset(i).bytes() as i128));
                        }
                        o.push(("offsets", J::Arr(offs)));
                        let mut sizes = Vec::new();
                        for i in 0..n {
                            let fl = l.field(&ty::layout::LayoutCx::new(tcx, env), i);
                            sizes.push(J::Int(fl.size.bytes() as i128));
                        }
                        o.push(("field_sizes", J::Arr(sizes)));
                    }
                }
            }
        }
        J::obj(o)
    }

    // ---------------------------------------------------------------- consts / statics

    fn konst(&self, did: DefId) -> Option<J> {
        let tcx = self.tcx;
        if tcx.generics_of(did).requires_monomorphization(tcx) {
            return None;
        }
        let kind = tcx.def_kind(did);
        if std::env::var("S4FACTS_DEBUG").is_ok() {
            eprintln!("s4facts: const {}", self.path(did));
        }
        if matches!(kind, DefKind::Static { .. }) && tcx.is_thread_local_static(did) {
            return None;
        }
        let ty = tcx.normalize_erasing_regions(TypingEnv::fully_monomorphized(), tcx.type_of(did).instantiate_identity());
        let cv = match kind {
            DefKind::Static { .. } => {
                if tcx.eval_static_initializer(did).is_err() {
                    return None;
                }
                let id = tcx.reserve_and_set_static_alloc(did);
                ConstValue::Indirect { alloc_id: id, offset: Size::ZERO }
            }
            _ => match tcx.const_eval_poly(did) {
                Ok(cv) => cv,
                Err(_) => return None,
            },
        };
        let v = self.val_to_json(cv, ty, 0);
        Some(J::obj(vec![
            ("path", J::s(self.path(did))),
            ("kind", J::s(if matches!(kind, DefKind::Static { .. }) { "static" } else { "const" })),
            ("ty", J::s(self.ty(ty))),
            ("span", J::s(self.span(tcx.def_span(did)))),
            ("value", v),
        ]))
    }
}

struct Cb;
impl rustc_driver::Callbacks for Cb {
    fn after_analysis<'tcx>(&mut self, _c: &Compiler, tcx: TyCtxt<'tcx>) -> Compilation {
        let outdir = match std::env::var("S4FACTS_OUT") {
            Ok(d) => d,
            Err(_) => return Compilation::Continue,
        };
        let krate = tcx.crate_name(rustc_span::def_id::LOCAL_CRATE).to_string();
        let cx = Cx { tcx, krate: krate.clone() };
        let mut out = String::new();
        rustc_middle::ty::print::with_no_trimmed_paths!(rustc_middle::ty::print::with_crate_prefix!({
            let mut bodies = Vec::new();
            for ldid in tcx.mir_keys(()) {
                let did = ldid.to_def_id();
                let kind = tcx.def_kind(did);
                if !matches!(kind, DefKind::Fn | DefKind::AssocFn | DefKind::Closure) {
                    continue;
                }
                if tcx.is_constructor(did) {
                    continue;
                }
                bodies.push(cx.body(did));
            }
            let mut adts = Vec::new();
            let mut consts = Vec::new();
            let mut foreign = Vec::new();
            for ldid in tcx.iter_local_def_id() {
                let did = ldid.to_def_id();
                match tcx.def_kind(did) {
                    DefKind::Struct | DefKind::Enum | DefKind::Union => adts.push(cx.adt(did)),
                    DefKind::Fn if tcx.is_foreign_item(did) => {
                        // declarations of foreign functions (bindgen output): path and signature, no body
                        let sig = tcx.fn_sig(did).instantiate_identity().skip_norm_wip().skip_binder();
                        foreign.push(J::obj(vec![("path", J::s(cx.path(did))), ("sig", J::s(cx.fix(format!("{}", sig))))]));
                    }
                    DefKind::Const { .. } | DefKind::AssocConst { .. } | DefKind::Static { .. } => {
                        if let Some(c) = cx.konst(did) {
                            consts.push(c);
                        }
                    }
                    _ => {}
                }
            }
            let root = J::obj(vec![
                ("crate", J::s(krate.clone())),
                ("bodies", J::Arr(bodies)),
                ("adts", J::Arr(adts)),
                ("consts", J::Arr(consts)),
                ("foreign_fns", J::Arr(foreign)),
            ]);
            root.write(&mut out);
        }));
        let path = format!("{}/{}.json", outdir, krate);
        std::fs::write(&path, out).expect("s4facts: cannot write facts");
        Compilation::Continue
    }
}

fn main() {
    let mut args: Vec<String> = std::env::args().collect();
    // RUSTC_WORKSPACE_WRAPPER: argv[1] is the rustc path
    args.remove(1);
    rustc_driver::run_compiler(&args, &mut Cb);
}
