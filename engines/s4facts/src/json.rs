//! Minimal JSON value + writer (no dependencies).
use std::fmt::Write;

#[derive(Clone, Debug)]
pub enum J {
    Null,
    Bool(bool),
    Int(i128),
    Str(String),
    Arr(Vec<J>),
    Obj(Vec<(String, J)>),
}

impl J {
    pub fn s<T: Into<String>>(t: T) -> J {
        J::Str(t.into())
    }
    pub fn obj(v: Vec<(&str, J)>) -> J {
        J::Obj(v.into_iter().map(|(k, v)| (k.to_string(), v)).collect())
    }
    pub fn write(&self, out: &mut String) {
        match self {
            J::Null => out.push_str("null"),
            J::Bool(b) => out.push_str(if *b { "true" } else { "false" }),
            J::Int(i) => {
                // JSON numbers beyond 2^63 are written as strings to keep python/json exact either way
                let _ = write!(out, "{}", i);
            }
            J::Str(s) => write_str(s, out),
            J::Arr(v) => {
                out.push('[');
                for (i, x) in v.iter().enumerate() {
                    if i > 0 {
                        out.push(',');
                    }
                    x.write(out);
                }
                out.push(']');
            }
            J::Obj(v) => {
                out.push('{');
                for (i, (k, x)) in v.iter().enumerate() {
                    if i > 0 {
                        out.push(',');
                    }
                    write_str(k, out);
                    out.push(':');
                    x.write(out);
                }
                out.push('}');
            }
        }
    }
}

pub fn write_str(s: &str, out: &mut String) {
    out.push('"');
    for c in s.chars() {
        match c {
            '"' => out.push_str("\\\""),
            '\\' => out.push_str("\\\\"),
            '\n' => out.push_str("\\n"),
            '\r' => out.push_str("\\r"),
            '\t' => out.push_str("\\t"),
            c if (c as u32) < 0x20 => {
                let _ = write!(out, "\\u{:04x}", c as u32);
            }
            c => out.push(c),
        }
    }
    out.push('"');
}

/// bytes -> JSON: a string if valid UTF-8, plus always the raw byte list under "bytes" when not.
pub fn bytes_json(b: &[u8]) -> J {
    match std::str::from_utf8(b) {
        Ok(s) => J::s(s),
        Err(_) => J::obj(vec![("bytes", J::Arr(b.iter().map(|x| J::Int(*x as i128)).collect()))]),
    }
}
