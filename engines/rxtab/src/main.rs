//! rxtab: regular-language analyser for the repository's regex tables.
//!
//! stdin: {"patterns":[{"id":..,"regex":"..","props":[<prop>...]}], "limit": 4000}
//!   <prop> = {"name":"p","any_of":[<atom>...]}   (language inclusion L(regex) ⊆ union of atoms)
//!   <atom> = {"contains_any":[bytes]} | {"contains_run":{"set":[bytes],"n":2}}
//! stdout: {"results":[{"id":..,"ok":true,"anchored_start":..,"anchored_end":..,
//!            "groups":[{"name":..,"mandatory":..,"min_len":..,"max_len":..,"language":[..]|null}],
//!            "props":[{"name":..,"holds":..,"counterexample":..,"product_states":n}], "dfa_states":n}]}
//! Nothing is executed from the analysed repository; only pattern strings are interpreted.
use regex_automata::dfa::{dense, Automaton, StartKind};
use regex_automata::util::primitives::StateID;
use regex_automata::util::start::Config as StartConfig;
use regex_automata::{Anchored, MatchKind};
use regex_syntax::hir::{Class, Hir, HirKind, Look};
use serde_json::{json, Value};
use std::collections::{HashMap, VecDeque};
use std::io::Read;

fn mandatory(h: &Hir, name: &str) -> bool {
    match h.kind() {
        HirKind::Capture(c) => {
            if c.name.as_deref() == Some(name) {
                true
            } else {
                mandatory(&c.sub, name)
            }
        }
        HirKind::Concat(v) => v.iter().any(|x| mandatory(x, name)),
        HirKind::Alternation(v) => v.iter().all(|x| mandatory(x, name)),
        HirKind::Repetition(r) => r.min >= 1 && mandatory(&r.sub, name),
        _ => false,
    }
}

fn find_captures<'a>(h: &'a Hir, out: &mut Vec<(String, &'a Hir)>) {
    match h.kind() {
        HirKind::Capture(c) => {
            if let Some(n) = &c.name {
                out.push((n.to_string(), &c.sub));
            }
            find_captures(&c.sub, out);
        }
        HirKind::Concat(v) | HirKind::Alternation(v) => {
            for x in v {
                find_captures(x, out);
            }
        }
        HirKind::Repetition(r) => find_captures(&r.sub, out),
        _ => {}
    }
}

/// finite language of a sub-expression as byte strings, None if infinite or above `limit`
fn language(h: &Hir, limit: usize) -> Option<Vec<Vec<u8>>> {
    match h.kind() {
        HirKind::Empty | HirKind::Look(_) => Some(vec![vec![]]),
        HirKind::Literal(l) => Some(vec![l.0.to_vec()]),
        HirKind::Class(c) => {
            let mut out = Vec::new();
            match c {
                Class::Bytes(b) => {
                    for r in b.ranges() {
                        for x in r.start()..=r.end() {
                            out.push(vec![x]);
                            if out.len() > limit {
                                return None;
                            }
                        }
                    }
                }
                Class::Unicode(u) => {
                    for r in u.ranges() {
                        let (s, e) = (r.start() as u32, r.end() as u32);
                        if (e - s) as usize > limit {
                            return None;
                        }
                        for x in s..=e {
                            if let Some(ch) = char::from_u32(x) {
                                let mut buf = [0u8; 4];
                                out.push(ch.encode_utf8(&mut buf).as_bytes().to_vec());
                                if out.len() > limit {
                                    return None;
                                }
                            }
                        }
                    }
                }
            }
            Some(out)
        }
        HirKind::Capture(c) => language(&c.sub, limit),
        HirKind::Concat(v) => {
            let mut acc: Vec<Vec<u8>> = vec![vec![]];
            for x in v {
                let l = language(x, limit)?;
                let mut next = Vec::new();
                for a in &acc {
                    for b in &l {
                        let mut s = a.clone();
                        s.extend_from_slice(b);
                        next.push(s);
                        if next.len() > limit {
                            return None;
                        }
                    }
                }
                acc = next;
            }
            Some(acc)
        }
        HirKind::Alternation(v) => {
            let mut out = Vec::new();
            for x in v {
                out.extend(language(x, limit)?);
                if out.len() > limit {
                    return None;
                }
            }
            out.sort();
            out.dedup();
            Some(out)
        }
        HirKind::Repetition(r) => {
            let max = r.max?;
            if max > 12 {
                return None;
            }
            let l = language(&r.sub, limit)?;
            let mut out: Vec<Vec<u8>> = Vec::new();
            let mut acc: Vec<Vec<u8>> = vec![vec![]];
            for i in 0..=max {
                if i >= r.min {
                    out.extend(acc.iter().cloned());
                }
                if i == max {
                    break;
                }
                let mut next = Vec::new();
                for a in &acc {
                    for b in &l {
                        let mut s = a.clone();
                        s.extend_from_slice(b);
                        next.push(s);
                        if next.len() > limit {
                            return None;
                        }
                    }
                }
                acc = next;
                if out.len() > limit {
                    return None;
                }
            }
            out.sort();
            out.dedup();
            Some(out)
        }
    }
}

#[derive(Clone)]
enum Atom {
    ContainsAny([bool; 256]),
    ContainsRun([bool; 256], usize),
}

fn atoms_from(v: &Value) -> Vec<Atom> {
    let mut out = Vec::new();
    if let Some(a) = v.get("any_of").and_then(|x| x.as_array()) {
        for at in a {
            if let Some(bs) = at.get("contains_any").and_then(|x| x.as_array()) {
                let mut s = [false; 256];
                for b in bs {
                    s[b.as_u64().unwrap() as usize] = true;
                }
                out.push(Atom::ContainsAny(s));
            } else if let Some(o) = at.get("contains_run") {
                let mut s = [false; 256];
                for b in o.get("set").and_then(|x| x.as_array()).unwrap() {
                    s[b.as_u64().unwrap() as usize] = true;
                }
                let n = o.get("n").and_then(|x| x.as_u64()).unwrap_or(2) as usize;
                out.push(Atom::ContainsRun(s, n));
            }
        }
    }
    out
}

/// property-automaton state: per atom a small counter; SAT = usize::MAX sentinel in slot 0
fn p_step(atoms: &[Atom], st: &Vec<usize>, b: u8) -> Vec<usize> {
    if st[0] == usize::MAX {
        return st.clone();
    }
    let mut n = st.clone();
    for (i, a) in atoms.iter().enumerate() {
        match a {
            Atom::ContainsAny(s) => {
                if s[b as usize] {
                    n[0] = usize::MAX;
                    return n;
                }
            }
            Atom::ContainsRun(s, k) => {
                if s[b as usize] {
                    n[i + 1] = st[i + 1] + 1;
                    if n[i + 1] >= *k {
                        n[0] = usize::MAX;
                        return n;
                    }
                } else {
                    n[i + 1] = 0;
                }
            }
        }
    }
    n
}

fn check_inclusion(dfa: &dense::DFA<Vec<u32>>, atoms: &[Atom]) -> (bool, Option<Vec<u8>>, usize) {
    let start = match dfa.start_state(&StartConfig::new().anchored(Anchored::Yes)) {
        Ok(s) => s,
        Err(_) => return (false, Some(b"<no start state>".to_vec()), 0),
    };
    let p0: Vec<usize> = vec![0; atoms.len() + 1];
    let mut seen: HashMap<(StateID, Vec<usize>), Option<((StateID, Vec<usize>), u8)>> = HashMap::new();
    let mut q = VecDeque::new();
    seen.insert((start, p0.clone()), None);
    q.push_back((start, p0));
    while let Some((s, p)) = q.pop_front() {
        // is the string consumed so far a match?
        let eoi = dfa.next_eoi_state(s);
        if dfa.is_match_state(eoi) && p[0] != usize::MAX {
            // counter-example: reconstruct
            let mut bytes = Vec::new();
            let mut cur = (s, p.clone());
            while let Some(Some((prev, b))) = seen.get(&cur).cloned() {
                bytes.push(b);
                cur = prev;
            }
            bytes.reverse();
            return (false, Some(bytes), seen.len());
        }
        if p[0] == usize::MAX {
            // property already satisfied forever: no need to explore further from here
            continue;
        }
        for b in 0u16..256 {
            let b = b as u8;
            let ns = dfa.next_state(s, b);
            if dfa.is_dead_state(ns) || dfa.is_quit_state(ns) {
                continue;
            }
            let np = p_step(atoms, &p, b);
            let key = (ns, np);
            if !seen.contains_key(&key) {
                seen.insert(key.clone(), Some(((s, p.clone()), b)));
                q.push_back(key);
            }
        }
    }
    (true, None, seen.len())
}

fn analyze(p: &Value, limit: usize) -> Value {
    let id = p.get("id").cloned().unwrap_or(Value::Null);
    let re = p.get("regex").and_then(|x| x.as_str()).unwrap_or("");
    let hir = match regex_syntax::ParserBuilder::new().utf8(false).build().parse(re) {
        Ok(h) => h,
        Err(e) => return json!({"id": id, "ok": false, "error": format!("parse: {}", e)}),
    };
    let props_h = hir.properties();
    let anchored_start = props_h.look_set_prefix().contains(Look::Start);
    let anchored_end = props_h.look_set_suffix().contains(Look::End);
    let mut caps = Vec::new();
    find_captures(&hir, &mut caps);
    let mut groups = Vec::new();
    for (name, sub) in &caps {
        let lang = language(sub, limit).map(|l| {
            l.into_iter().map(|b| String::from_utf8_lossy(&b).to_string()).collect::<Vec<String>>()
        });
        groups.push(json!({
            "name": name,
            "mandatory": mandatory(&hir, name),
            "min_len": sub.properties().minimum_len(),
            "max_len": sub.properties().maximum_len(),
            "language": lang,
        }));
    }
    let mut out = json!({"id": id, "ok": true, "anchored_start": anchored_start, "anchored_end": anchored_end,
        "groups": groups, "min_len": props_h.minimum_len(), "max_len": props_h.maximum_len()});
    let want_props = p.get("props").and_then(|x| x.as_array()).cloned().unwrap_or_default();
    if !want_props.is_empty() {
        let dfa = dense::Builder::new()
            .configure(
                dense::Config::new()
                    .match_kind(MatchKind::All)
                    .start_kind(StartKind::Anchored)
                    .unicode_word_boundary(true)
                    .dfa_size_limit(Some(200 << 20))
                    .determinize_size_limit(Some(400 << 20)),
            )
            .syntax(regex_automata::util::syntax::Config::new().utf8(false))
            .thompson(regex_automata::nfa::thompson::Config::new().utf8(false))
            .build(re);
        match dfa {
            Ok(dfa) => {
                let mut pr = Vec::new();
                for w in &want_props {
                    let atoms = atoms_from(w);
                    let (holds, cex, n) = check_inclusion(&dfa, &atoms);
                    pr.push(json!({"name": w.get("name"), "holds": holds,
                        "counterexample": cex.map(|b| String::from_utf8_lossy(&b).to_string()), "product_states": n}));
                }
                out["props"] = Value::Array(pr);
                out["dfa_bytes"] = json!(dfa.memory_usage());
            }
            Err(e) => {
                out["ok"] = json!(false);
                out["error"] = json!(format!("dfa: {}", e));
            }
        }
    }
    out
}

/// rows[j] is dead if some earlier rows[i] finds a match inside every string rows[j] matches.
/// For each j returns the first such i (or null) with the number of product states explored.
fn shadow(v: &Value) -> Value {
    let pats: Vec<String> = v.get("shadow").and_then(|x| x.as_array()).unwrap().iter().map(|x| x.as_str().unwrap().to_string()).collect();
    let window = v.get("window").and_then(|x| x.as_u64()).unwrap_or(1000) as usize;
    let cfg = |anchored: bool| {
        dense::Config::new()
            .match_kind(MatchKind::All)
            .start_kind(if anchored { StartKind::Anchored } else { StartKind::Unanchored })
            .unicode_word_boundary(true)
            .dfa_size_limit(Some(200 << 20))
            .determinize_size_limit(Some(400 << 20))
    };
    let build = |re: &str, anchored: bool| {
        dense::Builder::new()
            .configure(cfg(anchored))
            .syntax(regex_automata::util::syntax::Config::new().utf8(false))
            .thompson(regex_automata::nfa::thompson::Config::new().utf8(false))
            .build(re)
    };
    let mut search = Vec::new();
    for p in &pats {
        search.push(build(p, false).ok());
    }
    let mut out = Vec::new();
    let mut total_states: usize = 0;
    for j in 0..pats.len() {
        let mut dead_by: Option<usize> = None;
        let dj = match &search[j] { Some(d) => d, None => { out.push(json!({"j": j, "error": "dfa"})); continue; } };
        let lo = if j > window { j - window } else { 0 };
        for i in lo..j {
            let di = match &search[i] { Some(d) => d, None => continue };
            // BFS for a line s such that r_j finds a match in s and r_i finds none
            let sj = match dj.start_state(&StartConfig::new().anchored(Anchored::No)) { Ok(s) => s, Err(_) => continue };
            let si = match di.start_state(&StartConfig::new().anchored(Anchored::No)) { Ok(s) => s, Err(_) => continue };
            let mut seen: std::collections::HashSet<(StateID, bool, StateID)> = std::collections::HashSet::new();
            let mut q = VecDeque::new();
            seen.insert((sj, false, si));
            q.push_back((sj, false, si));
            let mut counter = false;
            let limit = 600000usize;
            while let Some((a, mj, b)) = q.pop_front() {
                let mj_eoi = mj || dj.is_match_state(dj.next_eoi_state(a));
                if mj_eoi && !di.is_match_state(di.next_eoi_state(b)) {
                    counter = true;
                    break;
                }
                if seen.len() > limit {
                    counter = true; // give up: treat as not shadowed
                    break;
                }
                for byte in 0u16..256 {
                    let byte = byte as u8;
                    let nb = di.next_state(b, byte);
                    if di.is_match_state(nb) || di.is_quit_state(nb) {
                        // r_i has matched: every extension of this line is covered by row i
                        continue;
                    }
                    let (na, nmj) = if mj {
                        (a, true)
                    } else {
                        let na = dj.next_state(a, byte);
                        if dj.is_quit_state(na) { continue; }
                        if dj.is_match_state(na) { (na, true) } else { (na, false) }
                    };
                    if !nmj && dj.is_dead_state(na) {
                        continue;
                    }
                    if seen.insert((na, nmj, nb)) {
                        q.push_back((na, nmj, nb));
                    }
                }
            }
            total_states += seen.len();
            if !counter {
                dead_by = Some(i);
                break;
            }
        }
        out.push(json!({"j": j, "dead_by": dead_by}));
    }
    json!({"shadow": out, "product_states": total_states})
}

fn main() {
    let mut s = String::new();
    std::io::stdin().read_to_string(&mut s).unwrap();
    let v: Value = serde_json::from_str(&s).expect("rxtab: bad input json");
    if v.get("shadow").is_some() {
        println!("{}", shadow(&v));
        return;
    }
    let limit = v.get("limit").and_then(|x| x.as_u64()).unwrap_or(4000) as usize;
    let mut res = Vec::new();
    if let Some(ps) = v.get("patterns").and_then(|x| x.as_array()) {
        for p in ps {
            res.push(analyze(p, limit));
        }
    }
    println!("{}", json!({"results": res}));
}
