#!/bin/bash
# Build the framework offline from the files on disk.
set -e
cd "$(dirname "$0")"
export CARGO_NET_OFFLINE=true
(cd engines/s4facts && cargo build --offline)
if [ -d engines/rxtab ]; then
  (cd engines/rxtab && cargo build --offline --release)
fi
echo "setup ok"
