#!/bin/bash
# usage: run_suite.sh <repo-dir> : runs the pinned suite there and reports baseline tests that did not pass
D="${1:-/repo}"
cd "$D" || exit 2
cargo nextest run --workspace --no-fail-fast --tool-config-file pb:/w/lib/nextest.toml --profile pb --test-threads 8 --offline > "$D/target/suite.log" 2>&1
python3 - "$D" <<'PY'
import json,sys,xml.etree.ElementTree as ET
d=sys.argv[1]
sp=set(json.load(open('/root/.vp/BASELINE.json'))['stable_pass'])
t=ET.parse(d+'/target/nextest/pb/junit.xml')
passed=set()
for tc in t.iter('testcase'):
    if tc.find('failure') is None and tc.find('error') is None:
        passed.add(tc.get('classname')+'::'+tc.get('name'))
miss=sorted(sp-passed)
print("baseline tests: %d, passed now: %d, baseline tests not passing: %d" % (len(sp), len(sp&passed), len(miss)))
for m in miss[:40]: print("  NOT PASSING:", m)
sys.exit(1 if miss else 0)
PY
