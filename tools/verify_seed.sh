#!/bin/bash
# usage: verify_seed.sh <out-dir> <N> <seed-id>
# Confirms an agent-delivered change in the scratch worktree /tmp/wt/verify:
#   clean tree: demo passes; patched tree: builds, pinned suite keeps baseline green, demo fails.
# On success stores /verif/seeded/<seed-id>/{patch.diff,demo.sh,meta.json,verify.log}
OUT="$1"; N="$2"; ID="$3"
WT="${VERIFY_WT:-/tmp/wt/verify}"
LOG="$OUT/verify$N.log"
exec > >(tee "$LOG") 2>&1
if [ ! -d "$WT" ]; then
  git -C /repo worktree add -q --detach "$WT" HEAD || exit 2
  cp -r /repo/target "$WT/target"
fi
cd "$WT" || exit 2
git checkout -q -- . ; git clean -qfd -e target
git checkout -q --detach "$(git -C /repo rev-parse HEAD)"
echo "== clean tree: build + demo (expect PASS)"
cargo build --offline --release 2>&1 | tail -1
bash "$OUT/demo$N.sh" "$WT" > "$OUT/demo$N.clean.out" 2>&1; RC_CLEAN=$?
tail -3 "$OUT/demo$N.clean.out"; echo "demo rc on clean tree: $RC_CLEAN"
echo "== patched tree"
git apply --3way "$OUT/patch$N.diff" >/dev/null 2>&1 && git reset -q || { git reset -q --hard HEAD; echo "RESULT: patch does not apply"; exit 1; }
cargo build --offline --release 2>&1 | tail -1
/verif/tools/run_suite.sh "$WT" | tail -5; RC_SUITE=${PIPESTATUS[0]}
bash "$OUT/demo$N.sh" "$WT" > "$OUT/demo$N.patched.out" 2>&1; RC_PATCH=$?
tail -3 "$OUT/demo$N.patched.out"; echo "demo rc on patched tree: $RC_PATCH"
git checkout -q -- . ; git clean -qfd -e target
echo "RESULT: clean_demo_rc=$RC_CLEAN suite_rc=$RC_SUITE patched_demo_rc=$RC_PATCH"
if [ "$RC_CLEAN" = 0 ] && [ "$RC_SUITE" = 0 ] && [ "$RC_PATCH" != 0 ]; then
  mkdir -p "/verif/seeded/$ID"
  cp "$OUT/patch$N.diff" "/verif/seeded/$ID/patch.diff"
  cp "$OUT/demo$N.sh" "/verif/seeded/$ID/demo.sh"; for extra in "$OUT"/*.py; do [ -f "$extra" ] && cp "$extra" "/verif/seeded/$ID/"; done
  python3 - "$OUT/meta$N.json" "/verif/seeded/$ID/meta.json" "$RC_CLEAN" "$RC_SUITE" "$RC_PATCH" <<'PY'
import json,sys
try: m=json.load(open(sys.argv[1]))
except Exception as e: m={"note":"agent meta unreadable: %s"%e}
m["confirmed_by_main_session"]={"worktree":"/tmp/wt/verify (scratch, removed afterwards)","clean_tree_demo_rc":int(sys.argv[3]),
  "patched_suite":"baseline tests not passing: 0" if sys.argv[4]=="0" else "SUITE BROKEN","patched_demo_rc":int(sys.argv[5]),
  "ran":["cargo build --offline --release (clean, patched)","/verif/tools/run_suite.sh (patched)","demo.sh on clean and patched tree"]}
json.dump(m,open(sys.argv[2],"w"),indent=1)
PY
  cp "$LOG" "/verif/seeded/$ID/verify.log"
  echo "KEPT as /verif/seeded/$ID"
else
  echo "REJECTED"
fi
