#!/bin/bash
# helper used in round 6 (kept for later sessions): see DESIGN 9.10; expects /tmp/seedout/<Cxx>/ or /tmp/refout/<Rxx>/ layouts
# usage: extref.sh <Rxx>  - runs all 19 checks on each refactorN.diff of /tmp/refout/<Rxx>
cd /verif
R="$1"; ALL="C01 C02 C03 C04 C05 C06 C07 C08 C09 C10 C11 C12 C13 C14 C15 C16 C17 C18 C19"
for n in 1 2 3 4 5 6; do
  p=/tmp/refout/$R/refactor$n.diff; [ -f "$p" ] || continue
  out="$(./tools/try_patch.sh "$p" $ALL 2>&1)"
  nviol=$(echo "$out" | grep -c '^VIOLATION'); nerr=$(echo "$out" | grep -c 'CHECKER-ERROR\|patch failed'); nok=$(echo "$out" | grep -c ' OK (')
  printf "%s-refactor%d ok=%-3s violations=%-3s checker-errors=%s\n" $R $n "$nok" "$nviol" "$nerr"
  echo "$out" | grep -E "^VIOLATION|CHECKER-ERROR|patch failed|^  rule " | head -8
done
