#!/usr/bin/env python3
"""Prints the prompt given to a seeding sub-agent for one property (round >= 6).
The agent gets the property text, its scratch worktree, an output directory and one-paragraph summaries of
earlier seeded changes (so that it goes elsewhere) - nothing about the checks in /verif.
usage: gen_agent_prompt.py <Cxx> [<letters, e.g. kl>]"""
import json, glob, os, sys
pid = sys.argv[1]
letters = sys.argv[2] if len(sys.argv) > 2 else "kl"
props = {json.loads(l)["id"]: json.loads(l) for l in open("/verif/properties.jsonl")}
p = props[pid]
earlier = []
for d in sorted(glob.glob("/verif/seeded/%s-*" % pid)):
    try: m = json.load(open(d + "/meta.json"))
    except Exception: continue
    s = (m.get("summary") or "").replace("\n", " ")
    earlier.append("- %s" % s[:330])
print(f"""You are helping to evaluate verification tooling for the Rust project super-speedy-syslog-searcher (`s4`, a CLI that parses, datetime-sorts and merges log messages from text, compressed, archived, utmp/acct, journal and evtx files). Your job is to act as a developer who makes a realistic mistake.

Your own scratch git worktree of the project is at /tmp/wt/{pid} (already created, with a warm `target/` directory; debug test binaries and the release binary are built). Work ONLY inside /tmp/wt/{pid} and /tmp/seedout/{pid}. Do not read or write /repo, /verif or /root/.vp. There is no network; use `cargo ... --offline` only.

THE PROPERTY ({pid}: {p['title']}):
{p['statement']}

Quantifier: {p.get('quantifier','')}

TASK. Produce TWO independent changes to the project's source (each a separate patch against the worktree's HEAD) such that each change:
 1. compiles (`cargo build --offline --release` and the test build);
 2. keeps the project's pinned test suite green: run `/tmp/wt/run_suite.sh /tmp/wt/{pid}` with the patch applied; it must print "baseline tests not passing: 0" (it takes 3-6 minutes; a failure of blockreader_tests::test_mtime with "File exists" is a /tmp name collision with other runs - just re-run);
 3. BREAKS the property above - the real program then misbehaves for some input/schedule/option combination;
 4. looks like a plausible developer edit (refactor, optimisation, simplification, copy/paste slip, off-by-one, wrong constant, reordered statements, forgotten case), not sabotage; small (ideally 1-15 changed lines);
 5. needs something SPECIFIC to manifest: an unusual input, a particular interleaving or timing, a fault at a particular point, a multi-step sequence, a particular option combination, or two cooperating sites that each look fine alone. Ordinary use (`s4 some.log`) must NOT expose it at once.

For each change also write a demonstration: a bash script `demoN.sh <worktree>` that builds nothing itself but uses `<worktree>/target/release/s4` (assume `cargo build --offline --release` has been run in the worktree), creates its own input files in a fresh `mktemp -d` directory (remove it at the end), and exits 0 when the property holds and non-zero (with a message saying what differed) when it is broken. The demo must PASS (exit 0) on the unmodified HEAD and FAIL with your patch applied. Make demos deterministic where possible; when the fault is scheduling dependent, repeat enough times and say so. Python 3 (stdlib) is available for generating inputs; sample logs are in the worktree under logs/.

EARLIER CHANGES - do NOT repeat these or close variants of them; go to DIFFERENT sites and mechanisms (other functions, other stages of the pipeline, other option paths, other file kinds):
{chr(10).join(earlier)}

ALSO: while reading the code, if you notice behaviour of the UNMODIFIED tree that ALREADY violates the property (a real defect, with the exact input/command that shows it on the unmodified release binary), report it in your final answer under "REMARKS ABOUT THE UNMODIFIED TREE" with the reproduction. Only report what you actually reproduced.

DELIVERABLES, in /tmp/seedout/{pid}/ (create it):
  patch1.diff, patch2.diff   - `git diff` output against HEAD (each applies alone to a clean HEAD with `git apply`)
  demo1.sh, demo2.sh         - as described
  meta1.json, meta2.json     - JSON object with keys: "property" ("{pid}"), "summary" (what was changed, where, why it breaks the property), "files", "needs_to_manifest" (what specific input/schedule/sequence exposes it and what does not), "why_tests_miss_it", "ran" (list of the commands you ran and their results)
Suggested short names for the two changes: append them as "name" in the meta files (kebab-case, <= 40 chars).

Before finishing: verify each patch alone from a clean HEAD (git checkout -- . ; git apply patchN.diff ; cargo build --offline --release ; demoN.sh fails ; suite green), then leave the worktree clean (git checkout -- . ; git clean -fd -e target). If after honest effort you can find only one change that keeps the suite green, deliver one and say so. Final answer: a short report (what each change is, the demo results, the suite results, and the remarks about the unmodified tree).""")
