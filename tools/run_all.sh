#!/bin/bash
# Runs every registered quick (or thorough) command exactly as MANIFEST.json lists it and reports exit code + alarm lines.
# usage: run_all.sh [quick|thorough]
cd "$(dirname "$0")/.."
T="${1:-quick}"
bad=0
for c in C01 C02 C03 C04 C05 C06 C07 C08 C09 C10 C11 C12 C13 C14 C15 C16 C17 C18 C19; do
  rm -f evidence/$c.json
  t0=$(date +%s)
  out="$(./check $c --tier $T 2>&1)"; rc=$?
  t1=$(date +%s)
  nv=$(echo "$out" | grep -c '^VIOLATION'); ne=$(echo "$out" | grep -c 'CHECKER-ERROR\|stopped early\|Traceback'); nk=$(echo "$out" | grep -c '^KNOWN-FINDING')
  ev="missing"; [ -s evidence/$c.json ] && ev="written"
  st="ok"; if [ $rc -ne 0 ] || [ $nv -ne 0 ] || [ $ne -ne 0 ] || [ $ev != written ]; then st="ALARM"; bad=1; fi
  printf "%s rc=%d violations=%d errors=%d known=%d evidence=%s %ds %s\n" $c $rc $nv $ne $nk $ev $((t1-t0)) $st
  [ $st = ALARM ] && echo "$out" | grep -E "VIOLATION|CHECKER-ERROR|stopped early|Error" | head -5
done
exit $bad
