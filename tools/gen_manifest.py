#!/usr/bin/env python3
"""Regenerates /verif/MANIFEST.json from the table below (claimed checks) and properties.jsonl."""
import json
import os

V = os.path.dirname(os.path.dirname(os.path.abspath(__file__)))
props = [json.loads(l) for l in open(os.path.join(V, "properties.jsonl"))]

NOTE = ("Trusted base: rustc nightly front end / MIR builder / const evaluator; cargo check --release sees the shipped lib+bin with the "
        "shipped cfg; documented semantics of std and dependency APIs interpreted by name; dependency bodies not analysed; the Python "
        "rule engine (self-tested by seeded mutants under /verif/seeded and /verif/selftest).")

# id -> (technique, level text, design_ref)
CLAIMS = {
    "C03": ("MIR decision-path enumeration of the window predicates and their use sites over the finite domain Option-shapes x orderings; CFG dominance for the range check",
            "Static necessary-condition check on the type-checked program: every window predicate returns InRange exactly for A <= t <= B "
            "(complete table), every reader accepts exactly on that verdict (text, accounting, event-log, journal use sites), and both text "
            "search strategies are followed by the same range check. Decides the comparison/composition structure, not the search arithmetic "
            "(whether the binary search finds the first qualifying message is outside static reach).", "DESIGN.md §3 C03"),
}

CLAIMS["C08"] = ("MIR dataflow (key provenance at the index insert, iterator provenance in the walk), decision-path enumeration of the prefilter loop, compiler layout facts vs const match tables, backward store scan before the Ok return",
    "Static necessary-condition check: the ordering index of accounting records cannot lose equal-time records (key contains the record offset), "
    "is a BTreeMap walked minimum-first with the served key removed and the map successor returned, the prefilter accepts exactly A <= t <= B and "
    "skips only null/undecodable records, size()/offset_tv()/size_tv() agree with rustc's layout of every cast struct (all 16 layouts), and the "
    "rendered record must end at its newline (known finding F11: a NUL is written after it). Does not decide field rendering or layout detection.",
    "DESIGN.md §3 C08")

CLAIMS["C05"] = ("MIR dataflow at every io::Read::read call site (taint of the returned count into slice bounds / loop conditions; buffer escape), decision-path tables of the (file type, archive kind) dispatch matches, provenance of the opened path",
    "Static necessary-condition check: all 9 decoder read() sites honour short reads (count bounds the consumed slice, or fill loop, or buffer not "
    "consumed), BlockReader::read_block maps Text and FixedStruct to one distinct reader per archive kind and every reader that drops earlier blocks "
    "is marked streamed, and the evtx/journal readers open the temporary extraction when one exists. Does not decide decoder correctness for every "
    "compressor parameter, tar member lookup, or anything about concrete bytes.",
    "DESIGN.md §3 C05")

CLAIMS["C01"] = ("MIR call-resolution and dataflow on the merge coordinator: resolved selection callee and comparator closure, CFG dominance of the print calls by the wait condition, paired-update rule on the pending map and its shadow set, constant operands of the directory walker",
    "Static necessary-condition check of the merge in processing_loop/recv_many_chan/main/process_path: the selection is the first minimum by "
    "DateTime::cmp over a BTreeMap keyed by source index (PathId), printing is dominated by 'every live source has a pending message' and 'all "
    "FileInfo received', pending sources are not polled, source indices follow argument order and directory walks are sorted. It decides the "
    "structure of the merge, not that each reader yields its own messages in order, and not any concrete output.",
    "DESIGN.md §3 C01")

CLAIMS["C06"] = ("typestate dataflow fixpoint of the worker protocol over the MIR CFG of each worker function (with dispatcher guarantees proved from the dispatch match), classification of the coordinator loop's exit edges by the provenance of their branch conditions, call-graph reachability for registry access, guard-kind provenance at the select call",
    "Static necessary-condition check of the coordination protocol: on every CFG path each worker sends FileInfo before anything else and nothing "
    "after FileSummary and cannot return before FileInfo; the coordinator leaves its loop only on registry-empty / recv None / EXIT_EARLY and "
    "removes a channel on FileSummary and on RecvError; workers never touch the registry; select blocks under a read guard; joins come after "
    "the registry is cleared; stateful colour assignment precedes thread start. Structural deadlock/termination argument, not a model of the "
    "OS scheduler; reader-internal loops are not decided.",
    "DESIGN.md §3 C06")

CLAIMS["C13"] = ("must-pass-through analysis on the MIR CFG of all 32 print variants with slice-provenance classification of every sink (file field / date field / message bytes), dispatcher decision tables, provenance of the separator write and of the alignment-width loop",
    "Static necessary-condition check: for all 8 flag combinations of the 4 dispatchers, the selected variant writes per printed line the file "
    "field then the datetime field before any message bytes exactly when the flags say so; the datetime helpers of all four kinds apply the "
    "prepend offset and format to the message's own instant; the separator follows every kind of message under one condition; alignment width "
    "ranges over sources with a pending message; colour changes come only from termcolor in colour variants. Does not decide escape bytes, "
    "display widths or strftime output.",
    "DESIGN.md §3 C13")

CLAIMS["C14"] = ("regular-language analysis (regex-syntax HIR anchoring) of const-evaluated CLI patterns; MIR dataflow in process_dt/cli_process_args: provenance of parse-call arguments, paired-update of value and pattern under the row flag, dominance of the exit calls by the rejecting conditions",
    "Static necessary-condition check: the relative-offset grammar is anchored at both ends; a bare date is completed to 00:00:00 in value and "
    "pattern together; zone-less values are parsed in the --tz-offset zone with the row's own has_tz flag; named zones are substituted from the "
    "zone table with %Z->%z once; the '@'-relative bound is resolved second against the other bound; unparseable, both-relative, after>before "
    "(strict) and ambiguous-zone inputs exit non-zero. Does not decide chrono's parsing of each absolute form.",
    "DESIGN.md §3 C14")

CLAIMS["C18"] = ("MIR dominance and dataflow on the spawn/join sites, guard live-range analysis in decompress_to_ntf and the ctrlc handler closure, loop-exit classification of the handler's sweep, who-may-create for temporary files",
    "Static necessary-condition check of temporary-file cleanup: worker JoinHandles are kept and joined on every non-interrupted path; a temporary "
    "file is created and listed inside the registry write guard and the handler never releases that guard after sweeping; every creation is "
    "listed; the handler clears the channel registry, removes every listed file in a loop that only ends at exhaustion, and sets EXIT_EARLY "
    "which the coordinator tests before each blocking receive; the handler is installed before the first spawn. Does not decide timing.",
    "DESIGN.md §3 C18")

CLAIMS["C19"] = ("field-write inventory of the four sibling updaters, provenance of updater arguments in each message arm of the coordinator, paired write/accounting rule for every direct stdout write, call-graph reachability from print_summary to stdout sinks, per-write accounting rule inside all printer variants",
    "Static necessary-condition check of the summary bookkeeping: sibling updaters agree on bytes/flushed/lines/kind counter/datetimes; the "
    "per-file and total updaters receive exactly the print call's returned counts; separator and supplied-newline bytes go to the total only, "
    "exactly where written; nothing reachable from print_summary writes to stdout; the bounds shown are the ones the workers got; every stdout "
    "write_all in the printers is followed by printed += len(the same bytes). Does not decide the summary's text or per-reader statistics.",
    "DESIGN.md §3 C19")

CLAIMS["C10"] = ("MIR dataflow on EvtxReader::analyze/next: provenance of the index key components and stored value, resolved container type and pop operation, loop-exit classification of the record scan, window-verdict arms",
    "Static necessary-condition check of the event-log reader: BTreeMap index keyed by (record timestamp, enumerate() index directly over "
    "records()), pop_first order, stored Evtx built from the keyed record with dt = that timestamp, only InRange records indexed, the record "
    "loop left only at iterator exhaustion (records are stored out of order), compressed input parsed from the owned temporary extraction. "
    "Does not decide the evtx crate's enumeration or rendering.",
    "DESIGN.md §3 C10")

CLAIMS["C16"] = ("literal-table extraction from the MIR string-comparison chains of pathbuf_to_filetype_impl (suffix table vs bare-name table), provenance of every FileType's container field and of every self-call's arguments, size-change termination argument (with_extension(\"\") under a non-empty-suffix guard)",
    "Static necessary-condition check of the file-name classifier: both literal tables agree on every shared type word; every constructed "
    "FileType carries the container variable; recursion passes the unparseable flag unchanged and Some(container) with one distinct container "
    "per compression family; all literal comparisons are on lower-cased strings; every self-call strictly shortens the name (termination); "
    "junk trimming removes all characters of the documented sets. Does not decide Path::extension semantics on odd names.",
    "DESIGN.md §3 C16")

CLAIMS["C15"] = ("constant-operand and builder-chain analysis of the jwalk walker, CFG dominance of FileValid by the regular-file test, constant flags at the classifier call sites plus call-graph reachability to the one classifier, receiver identity of the path-list pushes in cli_process_args",
    "Static necessary-condition check of path expansion: sorted link-following walk, only regular files become sources, explicit files "
    "classified with unparseable_are_text=true and walked files with false by the same classifier, stdin paths spliced into the same list "
    "at the '-' position. Does not decide jwalk's ordering relation or symlink cycles.",
    "DESIGN.md §3 C15")

CLAIMS["C04"] = ("regular-language analysis of the const-evaluated DATETIME_PARSE_DATAS (173 regexes): DFA-product language inclusion against pre-check automata whose byte classes are read from the helpers' MIR, HIR group structure (mandatory groups, finite group languages, lengths) against the converter's requirements tabulated from MIR, decision-tree enumeration of the month converter",
    "Static check over ALL strings of each row's regular language: the byte pre-check selected for the row never rejects a string its regex "
    "matches; every capture group the converter unwraps for the row's DTFSSet is on every match path; day/fraction lengths fit and all fraction "
    "arms pad to nine digits; every capturable month spelling is accepted by the month converter; every capturable zone name is a key of the "
    "zone table; cgn_first/last exist. Decides table/code agreement only, not chrono's arithmetic nor which row wins for a line.",
    "DESIGN.md §3 C04")

CLAIMS["C07"] = ("composition of decided clauses: regular-language inclusion for the date converter (C04 R4.2), who-may-call plus pointer-provenance rule for CStr::from_ptr over the worker-reachable call graph, CFG dominance of unsafe record reads by the length check, worker-protocol typestate (C06 R6.1), read-loop progress rule (C05 R5.1b/c)",
    "Static necessary-condition check against crashes, hangs and cross-source disturbance caused by file content: the converter cannot panic on "
    "any string any table regex matches; fixed-size record fields must not be scanned with an unbounded C-string read (16 record layouts do: "
    "known finding F9); unsafe record reads are dominated by the length check; every worker path reports through FileInfo/FileSummary; decoder "
    "read loops cannot spin on a zero-byte read. General panic-freedom and decoder-crate robustness are NOT decided.",
    "DESIGN.md §3 C07")

CLAIMS["C11"] = ("CFG dominance and decision paths in process_stage2_find_dt / blockzero_analysis_syslines, per-container provenance table of BlockReader::mtime, def-use analysis of the assumed-year variable and loop-exit must-pass analysis in process_missing_year",
    "Static necessary-condition check of year inference: runs exactly for year-less patterns before streaming, seeded by the reader's mtime "
    "(time stored inside .gz/.tar, else filesystem); streamed year-less files disable block dropping; the assumed year starts at mtime's year "
    "in the --tz-offset zone, is only stepped back by one under the forward-jump guards, and the rollover test lies on every way out of the "
    "backward walk after a message was read. Does not decide the dates inferred for concrete logs.",
    "DESIGN.md §3 C11")

CLAIMS["C17"] = ("decision-path enumeration of the streaming loop (release call on every way round), call-graph must-call chain through the seven drop levels with per-level container removal, loop-exit classification of drop_lines, const-evaluated switches, sibling rule over the streamed decoders",
    "Static necessary-condition check that the release path exists and runs on every iteration: drop_data_try(previous) on every way round the "
    "streaming loop, live seven-level drop chain with each level removing from its own container, drop_lines releasing every line, drop "
    "switches constant true, streamed decoders dropping the previous block in their decode loop. It does NOT decide the memory bound itself "
    "(run-time Arc counts, lag of the printing thread).",
    "DESIGN.md §3 C17")

CLAIMS["C12"] = ("taint analysis from the length of block zero to RangeMap lookup keys and the acceptance comparisons of the blockzero_analysis family, lifted read-site rules (C05) and write-order rule (C02), const-evaluated CLI bounds against the comparisons in cli_process_blocksz",
    "Static necessary-condition check: no value derived from the length of block zero may select the count deciding file acceptance (fires "
    "today: known finding F4, two keys); every decoder hands out completely filled blocks and direct stdout writes are ordered after the "
    "pending buffer, so part sizes cannot reorder bytes; the CLI enforces the const-evaluated block-size bounds. It does NOT decide the "
    "offset/block arithmetic, multi-block line assembly or boundary-straddling timestamps.",
    "DESIGN.md §3 C12")
CLAIMS["C02"] = ("loop-carried def-use of the stream cursor and message payload provenance in exec_syslogprocessor, resolved iterator types of the sysline printers, dominance of the supplied-newline write, must-pass-through of the buffer flush before any direct stdout write in all printer variants",
    "Static necessary-condition check of the hand-over stages ONLY: cursor threading and one send per found message, forward adapter-free "
    "traversal of lines and parts in the printers, final newline only for an unterminated last message, direct stdout writes only after the "
    "pending buffer was written. The line/message reassembly arithmetic (find_line, LinePart stitching, find_sysline_year, block-zero "
    "pre-parsing) is explicitly outside static reach and not decided.",
    "DESIGN.md §3 C02")

CLAIMS["C09"] = ("const evaluation of the time-source override with constant-edge pruning, provenance of the window-test time, who-may-call inventory of libsystemd positioning calls over the call graph, decision-path classification of every Done return of next_common, rendering dispatch table",
    "Static necessary-condition check of the journal reader: entry instant = journal receive time and bounds converted as instants; libsystemd "
    "only seeks in analyze (to the --dt-after bound) and advances once per entry, never backwards; next_common returns Done only at journal "
    "end or on the inclusive window's AfterRange verdict; all ten renderings reach their own renderer. Does not decide equality with "
    "journalctl output.",
    "DESIGN.md §3 C09")

# clauses added after the second round of seeded regressions (appended to the level text; (technique suffix, text))
ROUND2 = {
 "C02": ("", "Also: the highlighted pieces of a line partition it (consecutive sub-slices, R2.5)."),
 "C03": ("", "Also: the year-inference walk may stop early only strictly before --dt-after (lift of C11 R11.5)."),
 "C04": ("", "Also: capture lengths fit the conversion buffer; zone-name alternatives are exactly the zone-table keys."),
 "C05": ("", "Also: blocks are kept on every pass over a streamed file (R5.4 on all passes); the gz/tar modification-time source is not gated on unrelated header fields (R5.6)."),
 "C06": ("", "Also: the coordinator never waits without a timeout while a worker may still be starting, recv paths returning None are accounted, once-cell initialisation cannot lose a race, worker loops drain their readers (R6.7)."),
 "C08": ("", "Also: the worker loop ends only at reader exhaustion (R8.6); block retention on every pass (R8.7, lift of R5.4)."),
 "C09": ("; shared instant-preservation lint on chrono conversions", "Also: no wall-clock view of a zoned datetime is read back as UTC in the journal window conversions (R9.5); the temporary extraction of compressed journals is complete (R9.6, lift of C05)."),
 "C10": ("; shared instant-preservation lint on chrono conversions", "Also: window/record-time conversions preserve the instant (R10.5); the temporary extraction of compressed .evtx files is complete (R10.6, lift of C05 read-loop rules)."),
 "C11": ("; const evaluation of the lazy_static threshold initialiser", "Also: the year-change threshold evaluates to 24..25 hours (R11.4); the walk stops early only strictly before --dt-after (R11.5); mtime conversion preserves the instant (R11.6); a message re-read under another year cannot absorb a line that begins a stored message (R11.7, defect F15 repaired)."),
 "C13": ("", "Also: returned/printed text derives from the message bytes (provenance, R13.2), padding is measured in the unit it is written in (R13.4b), message constructors are newline-terminated (R13.6), highlighted pieces partition the line (R13.7)."),
 "C14": ("; path-sensitive (disjunctive) forward dataflow with flag correlation", "Also: a value stripped of its zone name reaches the parser only with the %Z->%z rewritten pattern on the same path (R14.6, so ambiguous names cannot be accepted by zone-less rows); no wall-clock view is read back as UTC (R14.7)."),
 "C16": ("", "Also: every documented type word stops the right-to-left scan with its documented type (R16.6); all()-style tests over possibly empty component lists are guarded (R16.7)."),
 "C17": ("", "Also: inventory of growable containers owned by the streaming readers (R17.3)."),
 "C18": ("", "Also: an interrupt cannot hang the run (R18.6: repeated signal returns early, no join after an interrupt); listing on every non-error return is decided on the CFG region between creation and listing (R18.3)."),
 "C19": ("; abstract enumeration (Option shape x ordering) of the min/max accumulator", "Also: the four message arms of the coordinator perform the same bookkeeping (R19.7); first/last printed datetime are the running minimum/maximum on every path (R19.8)."),
 "C07": ("", "Also: record-time conversions preserve the instant (R7.7)."),
}
for _pid, (_t, _x) in ROUND2.items():
    if _pid in CLAIMS:
        _tech, _text, _ref = CLAIMS[_pid]
        CLAIMS[_pid] = (_tech + _t, _text + " " + _x, _ref)

# clauses added after the third round (appended after ROUND2)
ROUND3 = {
 "C02": ("", "Round 3: a message is stored after a block-bounded Done only behind an end-of-file test (R2.9); last_byte selects last elements (R2.10); insert/remove on the range index build the same range (R2.11)."),
 "C03": ("", "Round 3: the lower-bound binary search never tests datetimes for equality (R3.6); each bound reaches the predicate written for it (R3.7)."),
 "C04": ("; interpretation of small enum predicates over const-table rows", "Round 3: the --tz-offset parser's structural rules are lifted (R4.8)."),
 "C05": ("", "Round 3: sibling decoders size the block at the read cursor (R5.8)."),
 "C06": ("", "Round 3: a source whose thread cannot be spawned is un-registered (R6.8); ties between sources are broken deterministically (R6.9, lift of C01 R1.1/R1.4)."),
 "C07": ("", "Round 3: buffers are sized by the block size, never by a declared size (R7.10); member names and header times are sanitised before panicking std APIs (R7.11)."),
 "C08": ("", "Round 3: strict too-small test (R8.8); sibling arms agree on index ranges (R8.9); string bytes rendered bit for bit (R8.10)."),
 "C09": ("", "Round 3: a bound before 1970 does not wrap on the unsigned journal clock (R9.8)."),
 "C11": ("; MIR interpretation of dt_pattern_has_year over the table's (year, epoch) combinations", "Round 3: the missing-year pass runs exactly for notations that do not determine the year (R11.8)."),
 "C12": ("; abstract enumeration of the highlight code over all weak orderings of four indexes", "Round 3: lifts of R5.2, R5.8 and of the highlight enumeration R13.8 (R12.7)."),
 "C13": ("; abstract enumeration of the highlight code over all weak orderings of (at, at_end, dt_beg, dt_end)", "Round 3: the datetime highlight is decided for every ordering of part and datetime bounds (R13.8); separator provenance (R13.9); write order (R13.10, lift of R2.4); -d is rendered once when parsed (R13.11)."),
 "C14": ("", "Round 3: the sign reaches every additive term of hand-written offset arithmetic (R14.8)."),
 "C16": ("", "Round 3: the junk sets are the documented ones at both ends (R16.5); all fallbacks map unparseable_are_text alike (R16.8)."),
 "C17": ("", "Round 3: the release pass walks the whole index (R17.6); only year-less notations take the whole-file pass (R17.7); R17.5 withdrawn (false alarm after repair F20)."),
}
for _pid, (_t, _x) in ROUND3.items():
    if _pid in CLAIMS:
        _tech, _text, _ref = CLAIMS[_pid]
        CLAIMS[_pid] = (_tech + _t, _text + " " + _x, _ref)

ROUND3B = {
 "C01": ("", "Round 3: the per-source instant rules of C04, C08 and C11 are lifted (R1.6)."),
 "C03": ("", "The --dt-after searches compare datetimes only through the window predicates (R3.8)."),
 "C05": ("", "The compressed-file search agrees with the plain-file search (R5.9); the archive member is chosen by whole-path equality (R5.10); known finding F36: concatenated members are cut short (R5.11)."),
 "C08": ("", "Time variables of every layout arm are fed by the field their name denotes (R8.11)."),
 "C09": ("", "The cat rendering writes the MESSAGE value as stored (R9.9)."),
 "C10": ("", "The parser is not configured to reject chunks (R10.7)."),
 "C11": ("", "The pre-epoch branch of the mtime conversion complements the sub-second part (R11.9)."),
 "C14": ("; abstract enumeration of the evaluation order over the nine kinds of (-a, -b) pairs", "The '@'-relative bound is resolved second for every kind of pair (R14.9)."),
 "C15": ("", "Round 3: the walk loop consumes the walker itself and includes hidden entries (R15.1 clauses); no path test looks at a link itself (R15.4)."),
 "C18": ("", "Round 3: known finding F35, the interrupt takes effect only when the next message arrives (R18.7)."),
 "C19": ("", "Round 3: line counts of multi-line kinds come from the data (R19.1); known finding F38, colour escapes are not counted (R19.9)."),
}
for _pid, (_t, _x) in ROUND3B.items():
    if _pid in CLAIMS:
        _tech, _text, _ref = CLAIMS[_pid]
        CLAIMS[_pid] = (_tech + _t, _text + " " + _x, _ref)

ROUND4 = {
 "C01": ("; path-sensitive clean/dirty dataflow over the printers' private buffer with helper summaries", "Round 4: every printer body returns Ok only with its private buffer written out (R1.7)."),
 "C03": ("", "Round 4: no window bound is compared with the file's modification time (R3.9); the bounds themselves keep their sub-second digits (R3.10, from C14 R14.10)."),
 "C04": ("; sibling-row agreement over zone-notation families of the pattern table", "Round 4: the fallback-zone text is rendered from the same offset with sign and magnitude taken apart (R4.9); full-offset rows search at least as far as their hour-only sibling (R4.10); known finding F39: `+HHMM` under the <pri> family is read as +HH (R4.11)."),
 "C05": ("", "Round 4: archive members named as a file argument are classified like walked ones (R5.12); the stored modification time is preferred whenever present (from C11 R11.2)."),
 "C06": ("", "Round 4: the coordinator never waits on worker termination before every source is drained (R6.4 c2); every send on the worker channel is the blocking, lossless one (R6.10)."),
 "C07": ("", "Round 4: every worker loop makes progress or ends (R7.12, with C11 R11.10)."),
 "C08": ("", "Round 4: an out-of-range sub-second part is retried with zero nanoseconds before a record is given up (R8.12)."),
 "C09": ("", "Round 4: every enumerated data item is written by the export rendering (R9.7 clause); the MESSAGE key is cut exactly once between libsystemd and the write (R9.9 clause)."),
 "C10": ("", "Round 4: the evtx window predicate is decided by the C03 predicate tables (R10.9)."),
 "C11": ("", "Round 4: the stored modification time wins over the file system's whenever it is present (R11.2 clause); the backwards walk strictly progresses (R11.10)."),
 "C13": ("", "Round 4: every printer variant writes out what it batches (R13.12)."),
 "C14": ("", "Round 4: no filter-pattern row reads fractional seconds with chrono's integer-nanosecond %f (R14.10); parsed offset counts reach chrono's range-checked constructors unscaled (R14.11); a value that was given is resolved or rejected, never ignored (R14.12)."),
 "C02": ("", "Round 4: no line part is built with its end tied to its own begin index (R2.12)."),
 "C12": ("", "Round 4: threshold findings are keyed by everything the lookup key depends on (R12.1); streamed accounting files keep their blocks whatever the block count (R12.2 lift of C05 R5.4)."),
 "C15": ("; reaching-definition and loop-state checks in process_path", "Round 4: every classification is fed the resolved name (R15.5); the walk loop takes no decision from a collection it fills itself (R15.6)."),
 "C16": ("; reaching definitions for the two junk-trimming steps", "Round 4: the trimming steps compose (R16.9); tar members are classified by the full member path (R16.10)."),
 "C17": ("", "Round 4: the block-end test matches the end convention of the function it asks (R17.8); the release pass is not held back by the shape of the message (R17.1 clause)."),
 "C18": ("", "Round 4: the flag test protecting the join lies after the loop (R18.6 b); only the signal handler writes the interrupt flag (R18.8)."),
 "C19": ("", "Round 4: direct writes of non-constant bytes are counted in lines too (R19.10); the evtx per-file first/last are running extrema (R19.11)."),
}
ROUND4["C13"] = ("", "Round 4: every printer variant writes out what it batches (R13.12); the separator follows every message (R13.3 clause); decorated multi-line printers keep every byte (R13.13); a column width never becomes a formatter width (R13.4 clause).")
ROUND4["C08"] = ("", ROUND4["C08"][1] + " The rendering buffer holds the longest rendering of any layout (R8.13).")
for _pid, (_t, _x) in ROUND4.items():
    if _pid in CLAIMS:
        _tech, _text, _ref = CLAIMS[_pid]
        CLAIMS[_pid] = (_tech + _t, _text + " " + _x, _ref)

ROUND5 = {
 "C01": ("", "Round 5: path arguments expanded in other threads and collected over a channel are reported (R1.4 clause)."),
 "C02": ("; regular-language minimum match length of the pattern table", "Round 5: the is-last flag comes from one predicate at every send (R2.13); the too-small threshold is below the shortest possible message (R2.14)."),
 "C03": ("", "Round 5: an empty selection is not an error in any worker (R3.11); R3.9 covers every worker and reader."),
 "C04": ("", "Round 5: numeric-zone sibling rows agree on the separator before the zone (R4.12); pattern ties are decided towards the front of the table (R4.13)."),
 "C05": ("", "Round 5: the tar member position is counted over the same iterator where stored and where used (R5.13); the gzip size limit applies to the on-disk length (R5.14)."),
 "C06": ("", "Round 5: no directory walk is started from a closure handed to the walker's own thread pool (R6.11)."),
 "C07": ("", "Round 5: constant slice bounds on journal payloads are dominated by a length test (R7.13); the stage-1 threshold tables tile 0..max (R7.14)."),
 "C08": ("", "Round 5: only null entries are dismissed by the time scan (R8.14); an undecodable entry does not end the file (R8.15); the layout candidates are returned only after every by-size test (R8.16)."),
 "C10": ("", "Round 5: no shortcut from the file's modification time (R10.9 lift of C03 R3.9)."),
 "C12": ("", "Round 5: the datetime search sees both pieces of a range that spans two blocks (R12.8); the stored-line shortcut of find_line is not weakened (R12.9)."),
 "C09": ("", "Round 5: the journal worker reads the whole journal - no mtime shortcut, loop ends only on Done/Err (R9.10 lifts of C03 R3.9, C06 R6.7, C07 R7.12)."),
 "C13": ("", "Round 5: the --prepend-tz value resolves to the offset it denotes (R13.14 lift); no piece of a multi-line message goes unwritten (R13.15)."),
 "C14": ("", "Round 5: a bound on the trailing-zone-name scan admits the longest name of the zone table (R14.13)."),
 "C15": ("", "Round 5: only a full resolution counts as the resolved name, a classification by the found name is accepted as a fallback only (R15.5)."),
 "C16": ("; path-sensitive evaluation of the suffix match per literal", "Round 5: each compression suffix records its own container whatever the shape of the match (R16.11); no decision depends on a recursion counter (R16.12)."),
 "C17": ("", "Round 5: blocks are released in a loop over the line's parts (R17.4 clause)."),
 "C19": ("", "Round 5: the printers write everything the summary counts (R19.12 lifts of C13 R13.13/R13.15, C08 R8.13)."),
}
ROUND5["C04"] = ("", ROUND5["C04"][1] + " A zone name cannot be the beginning of a longer word (R4.14).")
for _pid, (_t, _x) in ROUND5.items():
    if _pid in CLAIMS:
        _tech, _text, _ref = CLAIMS[_pid]
        CLAIMS[_pid] = (_tech + _t, _text + " " + _x, _ref)

ROUND6 = {
 "C01": ("; name agreement of same-typed positional arguments over all calls", "Round 6: both counts of the print gate are taken inside the coordinator loop (R1.2 clause); journal entries carry the receive time in every rendering (R1.6 <- C09 R9.11); no call passes two same-typed named arguments in each other's place (R1.8)."),
 "C02": ("", "Round 6: a message is kept after a block-bounded Done only on the end-of-file side of the end-of-file test (R2.9 clause)."),
 "C03": ("", "Round 6: equal bounds are a valid window and relative bounds keep their base (R3.10 <- C14 R14.3/R14.5); every reader converts bounds and record times without losing the instant (R3.12); R3.9 follows the modification time through date arithmetic; R3.2 tolerates a second predicate use that cannot affect messages inside the window."),
 "C04": ("", "Round 6: the decision to re-parse the stage-1 messages uses the pattern count taken before the pattern analysis (R4.15); zone values reach the readers under their own parameter (R4.16); within a notation the full-offset rows accept every month spelling of the hour-only row (R4.17); a start-anchored row searches at least as far as its own longest match (R4.18); a month group with dotted abbreviations has them for every month (R4.19)."),
 "C05": ("", "Round 6: a buffered writer over the unpacked temporary file is flushed, and the result looked at, before success is reported (R5.15; lifted by C09 R9.6 and C10 R10.6); the composite archive|member name is split at its last separator (R5.16); BlockReader::filesz() returns the decoded size for every decoded container, for text and record files alike (R5.17)."),
 "C06": ("; effect analysis of every loop and iterator chain over a randomly seeded HashMap/HashSet", "Round 6: no output and no choice depends on the iteration order of a randomly seeded hash container (R6.12, whole program)."),
 "C07": ("", "Round 6: Summary accessors that panic on the Dummy placeholder are called only behind a failed is_dummy() test (R7.15); the emergency counter of the journal field enumeration is incremented on every way round the loop (R7.16); allocation sizes are followed through max() and back to numbers decoded from the file's own bytes (R7.10); path expansion never unwraps the result of opening a file (R7.17)."),
 "C08": ("", "Round 6: the candidate record layouts are walked in an order that does not change from run to run (R8.17 lift of C06 R6.12); layout arms of different OS families name the ut_type through different tables (R8.18); record files are sized by their decoded length in every container (R8.7 <- C05 R5.17); every print_fixedstruct variant returns Ok only with its buffer written out (R8.19); every label of a rendered record that is a field name is followed by a read of that field (R8.20); the by-size tests of filesz_to_types may be a table-driven loop (R8.16)."),
 "C09": ("; effect analysis of the field enumeration loops (borrowed data across FFI calls), image of the errno mapping, foreign-item signatures against the hand-written API struct", "Round 6: the DateTime stored in a rendered entry derives from the receive time only (R9.11); no borrowed field bytes are kept across calls of the field enumeration (R9.12); the enumeration bound is above journald's per-entry field limit (R9.13); every ErrorKind the reader compares with can be produced by its errno mapping (R9.14); every function pointer of the libsystemd API struct takes the parameters bindgen declares for that name (R9.15)."),
 "C10": ("", "Round 6: the window bounds are the ones the user wrote (R10.9 <- C03 R3.10); the flush and split rules of C05 at the extraction sites (R10.6 <- R5.15, R5.16); a decoded record goes round the record loop only through the index, a window verdict or a decode error (R10.3 clause)."),
 "C11": ("", "Round 6: the text-log processor combines no window bound with the file's modification time, also through date arithmetic (R11.11 <- C03 R3.9)."),
 "C12": ("", "Round 6: whether a message is cut at the end of block zero does not depend on where the block ends (R12.2 <- C02 R2.9)."),
 "C13": ("", "Round 6: the zone of the datetime field never derives from --tz-offset (R13.17); prepend zone and format reach the printers under their own parameter (R13.16); the escape table of --separator is injective and has C's values (R13.18)."),
 "C14": ("; reachability through thread-local initialisers and clap's derive", "Round 6: a bare date that is built directly becomes midnight in the --tz-offset zone (R14.2 clause); the start instant is captured before the first read of standard input (R14.14); the range-checked terms of a relative offset are added with checked arithmetic (R14.15)."),
 "C16": ("", "Round 6: the name of a tar member that is classified comes from the archive entry alone (R16.13). Round 7: a constant length limit on the whole member path admits every path of up to PATH_MAX-1 bytes (R16.14, a lower bound)."),
 "C17": ("", "Round 6: the window search of the streaming stage runs once per call and bisects plain files (R17.9, with the lift of C03 R3.3)."),
 "C18": ("", "Round 6: outside the signal handler the temp-file list only grows - no positional removal (R18.9)."),
 "C19": ("; decoding of the const-evaluated format templates", "Round 6: a summary label that names a counter is followed by the value of that counter (R19.13)."),
}
for _pid, (_t, _x) in ROUND6.items():
    if _pid in CLAIMS:
        _tech, _text, _ref = CLAIMS[_pid]
        CLAIMS[_pid] = (_tech + _t, _text + " " + _x, _ref)

NA_REASON = {}

checks = []
na = []
for p in props:
    pid = p["id"]
    if pid in CLAIMS:
        tech, text, ref = CLAIMS[pid]
        checks.append({
            "property_id": pid,
            "quick_cmd": "./check %s --tier quick" % pid,
            "thorough_cmd": "./check %s --tier thorough" % pid,
            "evidence_file": "/verif/evidence/%s.json" % pid,
            "replay_cmd_template": "./check %s --replay {path}" % pid,
            "engine": "s4facts+rules",
            "level_claimed": {"category": "other", "text": text, "design_ref": ref},
            "level_note": NOTE,
            "technique": "static analysis: " + tech,
        })
    else:
        na.append({"property_id": pid, "reason": NA_REASON.get(pid, "static clauses planned in DESIGN.md are not implemented yet (no check is claimed on nothing)")})

m = {
    "version": 1,
    "setup_cmd": "cd /verif && ./setup.sh",
    "hooks": {
        "guard": "s4_verif",
        "enable": "none needed: the checks read /repo's unmodified sources through `cargo +nightly check --release` with a rustc_private RUSTC_WORKSPACE_WRAPPER; no instrumentation was added to /repo",
        "baseline_off_cmd": "cd /repo && cargo nextest run --workspace --no-fail-fast --tool-config-file pb:/w/lib/nextest.toml --profile pb --test-threads 8 --offline || cargo test --workspace --no-fail-fast --offline",
        "source_commits": [],
        "add_only": True,
    },
    "engines": [
        {"name": "s4facts", "path": "engines/s4facts", "serves_properties": [c["property_id"] for c in checks],
         "kind_free_text": "rustc_private fact extractor (MIR with resolved callees, ADT layouts, const-evaluated tables) run as RUSTC_WORKSPACE_WRAPPER"},
        {"name": "rxtab", "path": "engines/rxtab", "serves_properties": [p for p in ("C04", "C07", "C14") if p in CLAIMS],
         "kind_free_text": "regular-language analyser (regex-syntax HIR, regex-automata dense DFA product search) over const-evaluated regex tables"},
        {"name": "rules", "path": "engines/rules", "serves_properties": [c["property_id"] for c in checks],
         "kind_free_text": "Python rule engine over the facts: CFG dominance/must-pass, dataflow origins, decision-path enumeration, typestate, sibling cross-checks"},
    ],
    "checks": checks,
    "not_applicable": na,
    "notes": "All checks are static (no execution of s4). Known findings: /verif/known_findings.json. Seeded regressions: /verif/seeded. See DESIGN.md.",
}
json.dump(m, open(os.path.join(V, "MANIFEST.json"), "w"), indent=1)
print("checks:", [c["property_id"] for c in checks], "not_applicable:", len(na))
