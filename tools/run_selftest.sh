#!/bin/bash
# Applies every /verif/selftest/<Cxx>-*.patch and every /verif/seeded/<Cxx>-*/patch.diff to a scratch copy of /repo
# and reports whether the named property's check raises a violation (expected) or stays silent.
cd "$(dirname "$0")/.."
printf "%-44s %-6s %s\n" "change" "check" "verdict"
# optional arguments: only the changes whose name matches one of the given extended-regex patterns
ONLY="$*"
for p in selftest/*.patch seeded/*/patch.diff; do
  [ -f "$p" ] || continue
  if [ -n "$ONLY" ]; then m=0; for pat in $ONLY; do echo "$p" | grep -Eq "$pat" && m=1; done; [ $m = 1 ] || continue; fi
  case "$p" in selftest/*) n="$(basename "$p" .patch)";; *) n="$(basename "$(dirname "$p")")";; esac
  c="${n%%-*}"
  extra=""
  [ -f "seeded/$n/also_check" ] && extra="$(cat "seeded/$n/also_check")"
  out="$(./tools/try_patch.sh "$p" $c $extra 2>&1)"
  if echo "$out" | grep -q "^VIOLATION"; then v="DETECTED ($(echo "$out" | grep -c '^VIOLATION') violation lines; $(echo "$out" | grep '^VIOLATION' | head -1 | sed 's/.*property=\([A-Z0-9]*\).*-\(R[0-9.a-z]*\)-.*/\1 \2/'))";
  elif echo "$out" | grep -q "patch failed"; then v="STALE (patch does not apply to the current tree)";
  elif echo "$out" | grep -q "CHECKER-ERROR"; then v="CHECKER-ERROR"; else v="missed"; fi
  printf "%-44s %-6s %s\n" "$n" "$c$([ -n "$extra" ] && echo "+$extra")" "$v"
done
