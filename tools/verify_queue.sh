#!/bin/bash
# helper used in round 6 (kept for later sessions): see DESIGN 9.10; expects /tmp/seedout/<Cxx>/ or /tmp/refout/<Rxx>/ layouts
# usage: verify_queue.sh <WT> <Cxx> <letter1> <letter2>   - verifies patch1/patch2 of /tmp/seedout/<Cxx> in worktree <WT>
WT="$1"; C="$2"; L1="$3"; L2="$4"
O=/tmp/seedout/$C
for N in 1 2; do
  [ -f "$O/patch$N.diff" ] || continue
  L=$L1; [ $N = 2 ] && L=$L2
  name=$(python3 -c "import json,sys; print(json.load(open('$O/meta$N.json')).get('name','change$N'))" 2>/dev/null || echo change$N)
  name=$(echo "$name" | tr -c 'a-zA-Z0-9-\n' '-' | cut -c1-40)
  VERIFY_WT="$WT" /verif/tools/verify_seed.sh "$O" "$N" "$C-$L-$name" > "$O/verify$N.out" 2>&1
  tail -2 "$O/verify$N.out"
done
