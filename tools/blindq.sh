#!/bin/bash
# helper used in round 6 (kept for later sessions): see DESIGN 9.10; expects /tmp/seedout/<Cxx>/ or /tmp/refout/<Rxx>/ layouts
cd /verif
for s in "$@"; do tools/blind.sh $s >> /tmp/seedout/blind6.txt 2>&1; done
