#!/bin/bash
# usage: reverify_seed.sh <seed-id> <worktree>
# Re-checks a kept seeded regression against the CURRENT /repo HEAD (repairs may have made it harmless or stale):
# applies seeded/<id>/patch.diff in the scratch worktree, builds, runs seeded/<id>/demo.sh; prints one verdict line.
ID="$1"; WT="$2"; D="/verif/seeded/$ID"
cd "$WT" || exit 2
git checkout -q -- . ; git clean -qfd -e target; git checkout -q --detach "$(git -C /repo rev-parse HEAD)"
if ! git apply --3way "$D/patch.diff" >/dev/null 2>&1; then git reset -q --hard HEAD; echo "$ID STALE (patch does not apply to HEAD)"; exit 0; fi
git reset -q
cargo build --offline --release > /dev/null 2>&1 || { echo "$ID BUILD-FAILS"; git checkout -q -- .; exit 0; }
for extra in "$D"/*.py "$D"/*.rs; do [ -f "$extra" ] && cp "$extra" "$(dirname "$D/demo.sh")/" 2>/dev/null; done
timeout 1800 bash "$D/demo.sh" "$WT" > "/tmp/wt/reverify.$ID.out" 2>&1; RC=$?
git checkout -q -- . ; git clean -qfd -e target
if [ $RC -ne 0 ]; then echo "$ID STILL-BREAKS (demo rc=$RC)"; else echo "$ID HARMLESS-NOW (demo passes on the patched tree)"; fi
