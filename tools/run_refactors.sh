#!/bin/bash
# Behaviour-preserving edits: every check must stay silent on each of them.
cd "$(dirname "$0")/.."
ALL="C01 C02 C03 C04 C05 C06 C07 C08 C09 C10 C11 C12 C13 C14 C15 C16 C17 C18 C19"
for p in selftest/refactor/*.patch; do
  out="$(./tools/try_patch.sh "$p" $ALL 2>&1)"
  nviol=$(echo "$out" | grep -c '^VIOLATION')
  nerr=$(echo "$out" | grep -c 'CHECKER-ERROR\|patch failed')
  nok=$(echo "$out" | grep -c ' OK (')
  printf "%-32s ok=%-3s violations=%-3s checker-errors=%s\n" "$(basename $p .patch)" "$nok" "$nviol" "$nerr"
  echo "$out" | grep -E "^VIOLATION|CHECKER-ERROR|patch failed" | head -5
done
