#!/bin/bash
# usage: blind.sh <seed-id>  - runs every check against the seed (as the checks stand now) and prints which report it
cd "$(dirname "$0")/.."
ID="$1"; P="seeded/$ID/patch.diff"; OWN="${ID%%-*}"
ALL="C01 C02 C03 C04 C05 C06 C07 C08 C09 C10 C11 C12 C13 C14 C15 C16 C17 C18 C19"
out="$(./tools/try_patch.sh "$P" $ALL 2>&1)"
own=$(echo "$out" | grep "^VIOLATION property=$OWN" | sed 's/.*violations\/\(C[0-9]*-R[0-9.a-z]*\)-.*/\1/' | sort -u | tr '\n' ' ')
oth=$(echo "$out" | grep "^VIOLATION" | grep -v "property=$OWN" | sed 's/.*violations\/\(C[0-9]*-R[0-9.a-z]*\)-.*/\1/' | sort -u | tr '\n' ' ')
err=$(echo "$out" | grep "CHECKER-ERROR" | sed 's/.*property=\(C[0-9]*\).*/\1/' | sort -u | tr '\n' ' ')
v="MISSED"; [ -n "$oth" ] && v="other ($oth)"; [ -n "$own" ] && v="own ($own)${oth:+ also $oth}"; [ -n "$err" ] && v="$v fail-closed[$err]"
printf "%-48s %s\n" "$ID" "$v"
