#!/bin/bash
# usage: try_patch.sh [-R] <patch.diff|commit:<sha>> <Cxx> [<Cyy> ...]
# Applies the patch to a scratch copy of /repo (outside /repo and /verif), runs the named checks
# against that copy (VERIF_REPO), prints their verdict lines and removes the copy.
REV=""
if [ "$1" = "-R" ]; then REV="-R"; shift; fi
P="$1"; shift; case "$P" in commit:*) ;; /*) ;; *) P="$(pwd)/$P";; esac
S="$(mktemp -d /tmp/s4mut.XXXXXX)"
trap 'rm -rf "$S"' EXIT
rsync -a --exclude target --exclude .git --exclude logs /repo/ "$S/"
if [[ "$P" == commit:* ]]; then
  git -C /repo show "${P#commit:}" > "$S/.p.diff"; P="$S/.p.diff"
fi
if ! (cd "$S" && patch -s -p1 --dry-run $REV < "$P" >/dev/null 2>&1); then
  # the patch was made against an older commit: merge it (3-way) using /repo's object store, index kept in the scratch copy
  export GIT_DIR=/repo/.git GIT_WORK_TREE="$S" GIT_INDEX_FILE="$S/.idx"
  git read-tree HEAD && (cd "$S" && git update-index -q --refresh >/dev/null 2>&1; git apply --3way $REV "$P" >/dev/null 2>&1) || { echo "try_patch: patch failed"; exit 2; }
  unset GIT_DIR GIT_WORK_TREE GIT_INDEX_FILE
  rm -f "$S/.idx"
  if grep -rlq '^<<<<<<< ' "$S/src" 2>/dev/null; then echo "try_patch: patch failed (conflict)"; exit 2; fi
else
  (cd "$S" && patch -s -p1 $REV < "$P") || { echo "try_patch: patch failed"; exit 2; }
fi
RC=0
for C in "$@"; do
  VERIF_REPO="$S" VERIF_EVIDENCE_DIR="$S/.evidence" /verif/check "$C" 2>&1 | grep -E "VIOLATION|KNOWN-FINDING|CHECKER-ERROR| OK | FAILED|^  [a-zA-Z]" | sed "s#$S#<scratch>#g"
done
