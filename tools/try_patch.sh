#!/bin/bash
# usage: try_patch.sh [-R] <patch.diff|commit:<sha>> <Cxx> [<Cyy> ...]
# Applies the patch to a scratch copy of /repo (outside /repo and /verif), runs the named checks
# against that copy (VERIF_REPO), prints their verdict lines and removes the copy.
REV=""
if [ "$1" = "-R" ]; then REV="-R"; shift; fi
P="$1"; shift; case "$P" in commit:*) ;; /*) ;; *) P="$(pwd)/$P";; esac
S="$(mktemp -d /tmp/s4mut.XXXXXX)"
trap 'rm -rf "$S"' EXIT
rsync -a --exclude target --exclude .git --exclude logs /repo/ "$S/"
if [[ "$P" == commit:* ]]; then
  git -C /repo show "${P#commit:}" > "$S/.p.diff"; P="$S/.p.diff"
fi
(cd "$S" && patch -s -p1 $REV < "$P") || { echo "try_patch: patch failed"; exit 2; }
RC=0
for C in "$@"; do
  VERIF_REPO="$S" VERIF_EVIDENCE_DIR="$S/.evidence" /verif/check "$C" 2>&1 | grep -E "VIOLATION|KNOWN-FINDING|CHECKER-ERROR| OK | FAILED|^  [a-zA-Z]" | sed "s#$S#<scratch>#g"
done
